#include "vt_sse_shim.h"
