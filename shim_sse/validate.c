/* setup-time validation of shim_sse/vt_sse_shim.h against the host CPU's instructions (needs SSE4.1; skipped with a notice otherwise) */
#include <stdio.h>
#include <stdlib.h>
#include <string.h>
#include <smmintrin.h>
#define __m128i vt_m128i
#define __m128 vt_m128
#define __m128d vt_m128d
#undef _MM_SHUFFLE
#define _mm_loadu_si128 vt_loadu_si128
#define _mm_shuffle_epi32 vt_shuffle_epi32
#define _mm_mul_epi32 vt_mul_epi32
#define _mm_add_epi64 vt_add_epi64
#define _mm_cvtsi128_si32 vt_cvtsi128_si32
#define _mm_cvtsi32_si128 vt_cvtsi32_si128
#define _mm_cvtepi8_epi32 vt_cvtepi8_epi32
#define _mm_cvtepi16_epi32 vt_cvtepi16_epi32
#define _mm_loadl_epi64 vt_loadl_epi64
#define _mm_loadu_si32 vt_loadu_si32
#include "vt_sse_shim.h"
#undef __m128i
#undef __m128
#undef __m128d
#undef _mm_loadu_si128
#undef _mm_shuffle_epi32
#undef _mm_mul_epi32
#undef _mm_add_epi64
#undef _mm_cvtsi128_si32
#undef _mm_cvtsi32_si128
#undef _mm_cvtepi8_epi32
#undef _mm_cvtepi16_epi32
#undef _mm_loadl_epi64
#undef _mm_loadu_si32
#undef _MM_SHUFFLE
#define _MM_SHUFFLE(z,y,x,w) (((z)<<6)|((y)<<4)|((x)<<2)|(w))
static unsigned long long s=88172645463325252ULL; static unsigned rnd(void){ s^=s<<13; s^=s>>7; s^=s<<17; return (unsigned)(s>>11); }
static int edge(int k){ static const int E[8]={0,1,-1,0x7fffffff,(int)0x80000000,0x7fff,-0x8000,255}; return (k&8)? (int)rnd() : E[k&7]; }
#define CMP(name, real, model) do{ __m128i R=(real); vt_m128i M=(model); if(memcmp(&R,&M,16)){ printf("shim mismatch: %s\n",name); return 1; } }while(0)
#define SH(imm) CMP("shuffle_epi32", _mm_shuffle_epi32(ra,imm), vt_shuffle_epi32(ma,imm))
int main(void){
  for(int it=0;it<200000;it++){
    int a[4],b[4]; for(int i=0;i<4;i++){ a[i]=edge(rnd()); b[i]=edge(rnd()); }
    __m128i ra=_mm_loadu_si128((const __m128i*)a), rb=_mm_loadu_si128((const __m128i*)b);
    vt_m128i ma=vt_loadu_si128((const vt_m128i*)a), mb=vt_loadu_si128((const vt_m128i*)b);
    CMP("loadu_si128",ra,ma);
    CMP("mul_epi32",_mm_mul_epi32(ra,rb),vt_mul_epi32(ma,mb));
    CMP("add_epi64",_mm_add_epi64(ra,rb),vt_add_epi64(ma,mb));
    SH(_MM_SHUFFLE(0,3,2,1)); SH(_MM_SHUFFLE(1,0,3,2)); SH(_MM_SHUFFLE(3,2,1,0)); SH(0x1b); SH(0xff); SH(0x00);
    if(_mm_cvtsi128_si32(ra)!=vt_cvtsi128_si32(ma)){ printf("shim mismatch: cvtsi128_si32\n"); return 1; }
    CMP("cvtsi32_si128",_mm_cvtsi32_si128(a[0]),vt_cvtsi32_si128(a[0]));
    CMP("cvtepi8_epi32",_mm_cvtepi8_epi32(ra),vt_cvtepi8_epi32(ma));
    CMP("cvtepi16_epi32",_mm_cvtepi16_epi32(ra),vt_cvtepi16_epi32(ma));
    CMP("loadl_epi64",_mm_loadl_epi64((const __m128i*)a),vt_loadl_epi64((const vt_m128i*)a));
    { int v; memcpy(&v,a,4); CMP("loadu_si32",_mm_cvtsi32_si128(v),vt_loadu_si32(a)); }
  }
  printf("sse shim: 200000 random/edge vectors per intrinsic agree with the host CPU\n");
  return 0;
}
