/* Plain-C lane models of the SSE2/SSE4.1 integer intrinsics used by silk/x86/VQ_WMat_EC_sse4_1.c (Intel SDM semantics = trusted base;
   each model is compared against the real instruction on the host CPU by setup_check.py).  Wrap-around (two's complement) arithmetic. */
#ifndef VERIF_SSE_SHIM
#define VERIF_SSE_SHIM
typedef union { int i32[4]; long long i64[2]; short i16[8]; signed char i8[16]; unsigned char u8[16]; } __m128i;
typedef union { float f[4]; } __m128;
typedef union { double d[2]; } __m128d;
#define _MM_SHUFFLE(z,y,x,w) (((z)<<6)|((y)<<4)|((x)<<2)|(w))
static inline __m128i _mm_loadu_si128(const __m128i *p){ __m128i r; const int *q=(const int*)(const void*)p; r.i32[0]=q[0]; r.i32[1]=q[1]; r.i32[2]=q[2]; r.i32[3]=q[3]; return r; }
static inline __m128i _mm_shuffle_epi32(__m128i a,int imm){ __m128i r; r.i32[0]=a.i32[imm&3]; r.i32[1]=a.i32[(imm>>2)&3]; r.i32[2]=a.i32[(imm>>4)&3]; r.i32[3]=a.i32[(imm>>6)&3]; return r; }
static inline __m128i _mm_mul_epi32(__m128i a,__m128i b){ __m128i r; r.i64[0]=(long long)a.i32[0]*b.i32[0]; r.i64[1]=(long long)a.i32[2]*b.i32[2]; return r; }
static inline __m128i _mm_add_epi64(__m128i a,__m128i b){ __m128i r; r.i64[0]=(long long)((unsigned long long)a.i64[0]+(unsigned long long)b.i64[0]); r.i64[1]=(long long)((unsigned long long)a.i64[1]+(unsigned long long)b.i64[1]); return r; }
static inline int _mm_cvtsi128_si32(__m128i a){ return a.i32[0]; }
static inline __m128i _mm_cvtsi32_si128(int a){ __m128i r; r.i32[0]=a; r.i32[1]=r.i32[2]=r.i32[3]=0; return r; }
static inline __m128i _mm_cvtepi8_epi32(__m128i a){ __m128i r; r.i32[0]=a.i8[0]; r.i32[1]=a.i8[1]; r.i32[2]=a.i8[2]; r.i32[3]=a.i8[3]; return r; }
static inline __m128i _mm_cvtepi16_epi32(__m128i a){ __m128i r; r.i32[0]=a.i16[0]; r.i32[1]=a.i16[1]; r.i32[2]=a.i16[2]; r.i32[3]=a.i16[3]; return r; }
static inline __m128i _mm_loadl_epi64(const __m128i *p){ __m128i r; const long long *q=(const long long*)(const void*)p; r.i64[0]=q[0]; r.i64[1]=0; return r; }
static inline __m128i _mm_loadu_si32(const void *p){ __m128i r; const unsigned char *q=(const unsigned char*)p; r.i32[0]=(int)((unsigned)q[0]|((unsigned)q[1]<<8)|((unsigned)q[2]<<16)|((unsigned)q[3]<<24)); r.i32[1]=r.i32[2]=r.i32[3]=0; return r; }
#endif
