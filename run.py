#!/usr/bin/env python3
"""Driver for the solver-based checks of xiph/opus (see DESIGN.md).

usage: run.py <PROPERTY-ID> [--tier quick|thorough] [--only REGEX] [--jobs N] [--keep] [--list]

For every obligation of the property (table in props/<ID>.py):
  1. goto-cc compiles the harness together with the *current* /repo sources it names
     (optionally: goto-instrument --replace-calls installs contract stubs),
  2. cbmc decides all assertions of the harness within the stated unwinding bounds (kissat back end),
  3. a -DWITNESS twin must reach its reachability goal (vacuity guard),
  4. on FAILED the trace is extracted, replayed natively (gcc + ASan/UBSan) when the harness is
     replayable, and reported.
Exit 0: every explored obligation held (or only listed known findings failed).
Exit 1: a line "VIOLATION property=<id> replay=<path>" was printed.
Exit 2: the check itself is broken (build failure, vacuous harness, encoding mismatch) - no VIOLATION line.
"""
import sys, os, re, json, time, subprocess, shutil, signal, hashlib, argparse, resource, atexit, importlib.util
from concurrent.futures import ThreadPoolExecutor

VERIF = os.path.dirname(os.path.abspath(__file__))
REPO = os.environ.get('VERIF_REPO', '/repo')
INC = ['include', 'celt', 'silk', 'silk/float', 'src', '.', 'dnn']
BASE_DEFS = ['-DHAVE_CONFIG_H', '-DENABLE_HARDENING', '-DOPUS_BUILD', '-DVAR_ARRAYS', '-DHAVE_LRINT',
             '-DHAVE_LRINTF', '-DDISABLE_DEBUG_FLOAT', '-DXIPH_OPUS_VERIF']
CBMC_CHECKS = ['--unwinding-assertions', '--signed-overflow-check', '--undefined-shift-check',
               '--drop-unused-functions', '--object-bits', '12', '--no-malloc-may-fail']
# standard-level UB that no sanitizer can confirm; masked by description (DESIGN 0.1)
GLOBAL_MASK = [r'same object violation in .*- ?\(?.*frames', r'same object violation in ptr - ']
QUICK_BUDGET = 150
THOROUGH_BUDGET = 1500


class Ob:
    """One obligation = one harness instance = one CBMC query (plus its witness twin)."""
    def __init__(self, name, harness, srcs=(), defs=(), unwind=1, unwindset=(), replace=(), lib=None,
                 flags=(), drop_checks=(), witness=True, budget=None, tier='quick', functions=(),
                 bounds='', assumptions=(), stubs=(), mask=(), replay=True, mem_gb=12, inc=(),
                 witness_defs=(), no_base_defs=False, solver='kissat', gen=None, nosimplify=False, memwords=64, nobody_ok=(), native_mem=False):
        self.name, self.harness, self.srcs, self.defs = name, harness, list(srcs), list(defs)
        self.unwind, self.unwindset, self.replace, self.lib = unwind, list(unwindset), list(replace), lib
        self.flags, self.drop_checks, self.witness, self.budget = list(flags), list(drop_checks), witness, budget
        self.tier, self.functions, self.bounds = tier, list(functions), bounds
        self.assumptions, self.stubs, self.mask, self.replay = list(assumptions), list(stubs), list(mask), replay
        self.mem_gb, self.inc, self.witness_defs, self.no_base_defs, self.solver = mem_gb, list(inc), list(witness_defs), no_base_defs, solver
        self.gen = gen
        # native_mem: use cbmc's own memset/memcpy models instead of the word-loop wrappers (right for constant sizes; the harness must
        # then carry value assertions that would expose a wrong model)
        self.native_mem = native_mem
        self.nobody_ok = list(nobody_ok)   # functions deliberately left without a body (arbitrary result is the intended stub)
        self.memwords = memwords  # largest mem* size in 4-byte words (loop bound of the wrappers in vt_mem_impl.c)
        # cbmc 6.11's expression simplifier mis-reads `row[sym]` when row points at a constant row >= 1 of a top-level
        # multi-dimensional byte array (repro: findings/cbmc_2d_array_simplifier_bug.c); harnesses that read such tables
        # through row pointers run with --no-simplify (slower, sound)
        self.nosimplify = nosimplify


def log(*a):
    print(*a, flush=True)


def sh(cmd, timeout=None, mem_gb=None, cwd=None, env=None):
    """run cmd; returns (rc, stdout, stderr, seconds, maxrss_kb); rc=-9 on timeout"""
    def pre():
        os.setsid()
        if mem_gb:
            lim = int(mem_gb * (1 << 30))
            resource.setrlimit(resource.RLIMIT_AS, (lim, lim))
    t0 = time.time()
    p = subprocess.Popen(cmd, stdout=subprocess.PIPE, stderr=subprocess.PIPE, cwd=cwd, env=env, preexec_fn=pre)
    try:
        out, err = p.communicate(timeout=timeout)
        rc = p.returncode
    except subprocess.TimeoutExpired:
        try:
            os.killpg(p.pid, signal.SIGKILL)
        except ProcessLookupError:
            pass
        out, err = p.communicate()
        rc = -9
    ru = resource.getrusage(resource.RUSAGE_CHILDREN)
    return rc, out.decode('utf-8', 'replace'), err.decode('utf-8', 'replace'), time.time() - t0, ru.ru_maxrss


class Runner:
    def __init__(self, prop, tier, only, jobs, keep):
        self.prop, self.tier, self.only, self.jobs, self.keep = prop, tier, only, jobs, keep
        base = os.environ.get('VERIF_SCRATCH', '/var/tmp')
        self.scratch = os.path.join(base, 'verif-%s-%d' % (prop, os.getpid()))
        os.makedirs(self.scratch, exist_ok=True)
        atexit.register(self.cleanup)
        for s in (signal.SIGTERM, signal.SIGINT, signal.SIGHUP):
            signal.signal(s, lambda *_: sys.exit(130))
        self.known = self.load_known()
        self.lines = []

    def cleanup(self):
        if not self.keep:
            shutil.rmtree(self.scratch, ignore_errors=True)

    def load_known(self):
        known = []
        p = os.path.join(VERIF, 'known_findings.txt')
        if os.path.exists(p):
            for l in open(p):
                l = l.strip()
                m = re.match(r'known:\s+property=(\S+)\s+harness=(\S+)\s+match=/(.*?)/\s+(.*)', l)
                if m:
                    known.append(dict(prop=m.group(1), harness=m.group(2), rx=m.group(3), what=m.group(4)))
        return known

    # ---------- build ----------
    def cc_args(self, ob, extra_defs=(), gendir=None, native=False):
        cfg = os.path.join(VERIF, 'harness', 'cfg')
        a = ['-I' + os.path.join(VERIF, x) for x in ob.inc]
        gd = gendir or getattr(ob, '_gendir', None)
        if gd:
            a.append('-I' + gd)
        a += ['-I' + os.path.join(REPO, i) for i in INC] + ['-I' + cfg, '-I' + os.path.join(VERIF, 'harness'),
                                                           '-I' + os.path.join(VERIF, 'spec')]
        if not ob.no_base_defs:
            a += BASE_DEFS
        a += ob.defs + list(extra_defs)
        if not native and not ob.native_mem:
            a += ['-include', os.path.join(VERIF, 'harness', 'vt_mem.h')]
        return a

    def build(self, ob, d, witness):
        os.makedirs(d, exist_ok=True)
        if ob.gen:
            gd = os.path.join(d, 'gen')    # one per build (main / witness run concurrently)
            os.makedirs(gd, exist_ok=True)
            ob.gen(gd)          # regenerated from /repo's current sources on every run
            ob._gendir = gd
        extra = (['-DWITNESS'] + ob.witness_defs) if witness else []
        gb = os.path.join(d, 'h.gb')
        harness = os.path.join(VERIF, 'harness', ob.harness)
        srcs = [os.path.join(REPO, s) for s in ob.srcs] + [os.path.join(VERIF, 'harness', 'vt_mem_impl.c')]
        if ob.lib:
            # unit under test compiled and instrumented first; harness linked afterwards so that the
            # harness's own call reaches the real body (DESIGN 0.2)
            libgb = os.path.join(d, 'lib.gb')
            libsrc = [os.path.join(VERIF, 'harness', s) if not s.startswith('/') and os.path.exists(os.path.join(VERIF, 'harness', s))
                      else os.path.join(REPO, s) for s in ob.lib]
            rc, o, e, _, _ = sh(['goto-cc'] + self.cc_args(ob, extra) + libsrc + ['-c', '-o', libgb] if len(libsrc) == 1 else
                                ['goto-cc'] + self.cc_args(ob, extra) + libsrc + ['-o', libgb, '--function', 'vt_dummy_entry'])
            if rc != 0:
                return None, 'goto-cc(lib) failed:\n' + e[-3000:]
            lib2 = os.path.join(d, 'lib2.gb')
            cmd = ['goto-instrument']
            for r in ob.replace:
                cmd += ['--replace-calls', r]
            rc, o, e, _, _ = sh(cmd + [libgb, lib2])
            if rc != 0:
                return None, 'goto-instrument failed:\n' + (o + e)[-3000:]
            hgb = os.path.join(d, 'har.gb')
            rc, o, e, _, _ = sh(['goto-cc'] + self.cc_args(ob, extra) + [harness] + srcs + ['-c', '-o', hgb] if not srcs else
                                ['goto-cc'] + self.cc_args(ob, extra) + [harness, '-c', '-o', hgb])
            if rc != 0:
                return None, 'goto-cc(harness) failed:\n' + e[-3000:]
            objs = [lib2, hgb]
            for i, s in enumerate(srcs):
                og = os.path.join(d, 's%d.gb' % i)
                rc, o, e, _, _ = sh(['goto-cc'] + self.cc_args(ob, extra) + [s, '-c', '-o', og])
                if rc != 0:
                    return None, 'goto-cc(src) failed:\n' + e[-3000:]
                objs.append(og)
            rc, o, e, _, _ = sh(['goto-cc'] + objs + ['-o', gb, '--function', 'harness'])
            if rc != 0:
                return None, 'goto-cc(link) failed:\n' + e[-3000:]
            return gb, ''
        rc, o, e, _, _ = sh(['goto-cc'] + self.cc_args(ob, extra) + [harness] + srcs + ['-o', gb, '--function', 'harness'])
        if rc != 0:
            return None, 'goto-cc failed:\n' + e[-3000:]
        if ob.replace:
            g2 = os.path.join(d, 'h2.gb')
            cmd = ['goto-instrument']
            for r in ob.replace:
                cmd += ['--replace-calls', r]
            rc, o, e, _, _ = sh(cmd + [gb, g2])
            if rc != 0:
                return None, 'goto-instrument failed:\n' + (o + e)[-3000:]
            gb = g2
        return gb, ''

    def loops(self, gb):
        """[(loop id, file, line)]"""
        rc, o, e, _, _ = sh(['goto-instrument', '--show-loops', gb])
        res = []
        for m in re.finditer(r'^Loop (\S+):\n\s+file (\S+) line (\d+)', o, re.M):
            res.append((m.group(1), m.group(2), int(m.group(3))))
        return res

    _src_cache = {}

    def src_line(self, f, n):
        if f not in self._src_cache:
            try:
                self._src_cache[f] = open(f, errors='replace').read().split('\n')
            except OSError:
                self._src_cache[f] = []
        L = self._src_cache[f]
        return L[n - 1] if 0 < n <= len(L) else ''

    def unwindset(self, ob, gb):
        """entries: 'function:N'         bounds every loop of that function (robust against loop
                                          renumbering when the source changes);
                    'function@regex:N'   bounds the loops of that function whose source line matches regex (also robust);
                    'function.K:N'       bounds one loop by cbmc's index;  'rec:function:N' bounds recursion depth"""
        fn, exact, pat = {}, {}, []
        # defaults for the symbolic-size-safe mem wrappers (vt_mem_impl.c)
        defaults = ['%s@>=4:%d' % (f, ob.memwords + 1) for f in ('vt_memcpy', 'vt_memset')] + \
                   ['%s@off<n:5' % f for f in ('vt_memcpy', 'vt_memset')] + ['vt_memmove:%d' % (4 * ob.memwords + 1)]
        for u in list(ob.unwindset) + defaults:
            k, v = u.rsplit(':', 1)
            if '@' in k:
                f, rx = k.split('@', 1)
                pat.append((f, re.compile(rx), v))
            elif re.search(r'\.\d+$', k):
                exact[k] = v
            else:
                fn[k] = v
        out = dict(exact)
        for f in list(fn):
            if f.startswith('rec:'):      # 'rec:function:N' = recursion depth bound (cbmc wants the bare function name)
                out[f[4:]] = fn.pop(f)
        if fn or pat:
            for l, file, line in self.loops(gb):
                f = l.rsplit('.', 1)[0]
                if l in exact:
                    continue
                txt = self.src_line(file, line)
                hit = [v for (pf, rx, v) in pat if pf == f and rx.search(txt)]
                if hit:
                    out[l] = hit[0]
                elif f in fn:
                    out[l] = fn[f]
        return ['%s:%s' % kv for kv in out.items()]

    def cbmc_cmd(self, ob, gb, witness, trace=False):
        cmd = ['cbmc', gb, '--function', 'harness', '--unwind', str(ob.unwind)]
        us = self.unwindset(ob, gb)
        if us:
            cmd += ['--unwindset', ','.join(us)]
        if witness:
            cmd += ['--no-unwinding-assertions', '--no-standard-checks', '--drop-unused-functions', '--object-bits', '12',
                    '--no-malloc-may-fail', '--no-built-in-assertions']
        else:
            checks = [c for c in CBMC_CHECKS if c not in ob.drop_checks]
            cmd += checks
        cmd += ob.flags
        if ob.nosimplify:
            cmd += ['--no-simplify']
        if ob.solver == 'kissat':
            cmd += ['--external-sat-solver', 'kissat']
        elif ob.solver == 'cadical':
            cmd += ['--sat-solver', 'cadical']
        if trace:
            cmd += ['--trace']
        cmd += ['--json-ui']
        return cmd

    @staticmethod
    def parse_json(out):
        try:
            d = json.loads(out)
        except Exception:
            return None
        res = {'results': None, 'verdict': None, 'msgs': []}
        for e in d:
            if 'result' in e:
                res['results'] = e['result']
            if 'cProverStatus' in e:
                res['verdict'] = e['cProverStatus']
            if e.get('messageType') in ('ERROR',):
                res['msgs'].append(e.get('messageText', ''))
            if e.get('messageType') == 'WARNING':
                mm = re.search(r'no body for (?:function|callee) (\S+)', e.get('messageText', ''))
                if mm:
                    res.setdefault('nobody', set()).add(mm.group(1))
            if e.get('messageType') == 'STATUS-MESSAGE':
                t = e.get('messageText', '')
                m = re.search(r'(\d+) variables, (\d+) clauses', t)
                if m:
                    res['vars'], res['clauses'] = int(m.group(1)), int(m.group(2))
        return res

    def copy_idiom(self, desc, sl):
        """OPUS_COPY/OPUS_MOVE type-check idiom `0*((dst)-(src))`: subtracting pointers into different objects is standard-level
        UB that no sanitizer can confirm and has no run-time effect; masked only on source lines that use those macros"""
        if not (desc.startswith('same object violation') or desc.startswith('arithmetic overflow on signed -') or 'pointer relation' in desc):
            return False
        try:
            txt = self.src_line(sl.get('file', ''), int(sl.get('line', '0')))
        except ValueError:
            return False
        return bool(re.search(r'OPUS_COPY\s*\(|OPUS_MOVE\s*\(|silk_memmove|silk_memcpy', txt))

    # ---------- one obligation ----------
    def run_main(self, ob):
        d = os.path.join(self.scratch, re.sub(r'[^\w.-]', '_', ob.name), 'main')
        r = dict(name=ob.name, kind='main', status='error', seconds=0.0, props=0, proved=0, failed=[], detail='')
        gb, err = self.build(ob, d, False)
        if not gb:
            r['detail'] = err
            r['status'] = 'build-failed'
            return r
        budget = ob.budget or (QUICK_BUDGET if self.tier == 'quick' else THOROUGH_BUDGET)
        env = dict(os.environ, TMPDIR=d)
        cmd = self.cbmc_cmd(ob, gb, False)
        rc, out, errt, secs, rss = sh(cmd, timeout=budget, mem_gb=ob.mem_gb, cwd=d, env=env)
        r['seconds'], r['cmd'] = round(secs, 1), ' '.join(cmd[2:])
        fallback = False
        if rc == -9:
            # The all-properties run did not finish.  One cheap second pass with --stop-on-fail: if the solver exhibits a violated
            # (unmasked) assertion that is a verdict and is reported; if it finds none in its budget the obligation stays inconclusive
            # (never an alarm).  Typical case: a change that makes dozens of assertions fail, each needing its own solver iteration.
            r['status'] = 'inconclusive'
            r['detail'] = 'timeout after %ds' % budget
            fb = int(os.environ.get('VERIF_FALLBACK_S', '0')) or min(240, max(60, budget // 3))
            # restrict the pass to the properties that are not masked (the copy-idiom pointer checks would otherwise be hit first)
            sel = []
            try:
                rcp, outp, _, _, _ = sh(['cbmc', gb, '--function', 'harness', '--show-properties', '--json-ui'] + [x for x in cmd if x.startswith('--no-') or x in ('--signed-overflow-check', '--undefined-shift-check', '--unwinding-assertions', '--drop-unused-functions')], timeout=120, cwd=d, env=env)
                mk = [re.compile(m) for m in GLOBAL_MASK + ob.mask]
                for e in json.loads(outp):
                    for pr in (e.get('properties') or []) if isinstance(e, dict) else []:
                        desc = pr.get('description', '')
                        if any(m.search(desc) for m in mk) or self.copy_idiom(desc, pr.get('sourceLocation', {})) or 'unwinding assertion' in desc:
                            continue
                        sel += ['--property', pr['name']]
            except Exception:
                sel = []
            rc2, out2, errt2, secs2, rss2 = sh(cmd + ['--stop-on-fail'] + sel, timeout=fb, mem_gb=ob.mem_gb, cwd=d, env=env)
            r['seconds'] = round(secs + secs2, 1)
            if rc2 == -9:
                return r
            try:
                dj = json.loads(out2)
            except Exception:
                return r
            hit = [e for e in dj if isinstance(e, dict) and str(e.get('status', '')).upper() in ('FAILURE', 'FAILED') and 'property' in e]
            if not hit:
                return r
            res = []
            for e in hit:
                sl = {}
                for st in reversed(e.get('trace', [])):
                    if st.get('sourceLocation'):
                        sl = st['sourceLocation']
                        break
                res.append(dict(property=e['property'], description=e.get('description', ''), status='FAILURE', sourceLocation=sl))
            out = json.dumps([{'result': res}, {'cProverStatus': 'failure'}])
            fallback = True
            r['detail'] = 'all-properties run timed out after %ds; failure found by a --stop-on-fail pass' % budget
        pj = self.parse_json(out)
        if pj is None or pj['results'] is None:
            txt = (out[-1500:] + errt[-1500:])
            r['status'] = 'inconclusive' if re.search(r'bad_alloc|out of memory|Killed|MemoryError|SAT checker inconclusive|cannot allocate', txt, re.I) or rc in (6, -6, -11, 134, 137, 139) else 'error'
            r['detail'] = 'rc=%d %s' % (rc, txt)
            return r
        r['vars'], r['clauses'] = pj.get('vars'), pj.get('clauses')
        masks = [re.compile(m) for m in GLOBAL_MASK + ob.mask]
        funcs = set()
        fails, masked, unw, nob = [], [], [], []
        for p in pj['results']:
            sl = p.get('sourceLocation', {})
            funcs.add(sl.get('function', ''))
            r['props'] += 1
            if p['status'] == 'SUCCESS':
                r['proved'] += 1
            else:
                desc = p.get('description', '')
                ent = dict(property=p.get('property'), desc=desc, file=sl.get('file', ''), line=sl.get('line', ''),
                           function=sl.get('function', ''), status=p['status'])
                if any(m.search(desc) for m in masks) or self.copy_idiom(desc, sl):
                    masked.append(ent)
                elif desc.startswith('no body for callee'):
                    if desc.split()[-1] not in ob.nobody_ok:
                        nob.append(desc.split()[-1])
                elif 'unwinding assertion' in desc:
                    unw.append('%s (%s:%s)' % (desc, sl.get('function', ''), sl.get('line', '')))
                else:
                    fails.append(ent)
        r['masked'] = masked
        if nob:
            r['status'] = 'error'
            r['detail'] = 'functions reached without a body (cbmc returns arbitrary values): ' + ','.join(sorted(set(nob)))
            return r
        if unw:
            r['status'] = 'error'
            r['detail'] = 'UNWIND-BOUND-TOO-SMALL: ' + '; '.join(unw[:6])
            return r
        nobody = sorted(f for f in (pj.get('nobody') or ()) if not f.startswith('nondet_') and f not in ob.nobody_ok)
        if nobody:
            r['status'] = 'error'
            r['detail'] = 'functions reached without a body (cbmc would return arbitrary values): ' + ','.join(nobody)
            return r
        missing = [] if fallback else [f for f in ob.functions if f not in funcs]
        if missing:
            r['status'] = 'error'
            r['detail'] = 'harness does not reach the real body of: ' + ','.join(missing)
            return r
        r['failed'] = fails
        r['status'] = 'failed' if fails else 'proved'
        r['gb'], r['dir'] = gb, d
        return r

    def run_witness(self, ob):
        d = os.path.join(self.scratch, re.sub(r'[^\w.-]', '_', ob.name), 'wit')
        r = dict(name=ob.name, kind='witness', status='error', seconds=0.0, detail='')
        gb, err = self.build(ob, d, True)
        if not gb:
            r['detail'] = err
            r['status'] = 'build-failed'
            return r
        budget = ob.budget or (QUICK_BUDGET if self.tier == 'quick' else THOROUGH_BUDGET)
        env = dict(os.environ, TMPDIR=d)
        do_replay = ob.replay and not ob.replace and not ob.lib
        cmd = self.cbmc_cmd(ob, gb, True, trace=do_replay)
        rc, out, errt, secs, rss = sh(cmd, timeout=budget, mem_gb=ob.mem_gb, cwd=d, env=env)
        r['seconds'] = round(secs, 1)
        if rc == -9:
            r['status'] = 'inconclusive'
            return r
        pj = self.parse_json(out)
        if pj is None or pj['results'] is None:
            r['detail'] = 'rc=%d %s' % (rc, (out[-800:] + errt[-800:]))
            r['status'] = 'inconclusive' if (rc in (6, -6, -11, 134, 137, 139) or re.search(r'Out of memory|bad_alloc', out + errt)) else 'error'
            return r
        w = [p for p in pj['results'] if p.get('description') == 'WITNESS']
        if not w:
            r['detail'] = 'harness has no WITNESS goal'
            return r
        r['status'] = 'reached' if all(p['status'] == 'FAILURE' for p in w) else 'vacuous'
        r['goals'] = len(w)
        r['replayed'] = 'n/a'
        if do_replay and r['status'] == 'reached' and 'trace' in w[0]:
            # validate the encoding against the implementation: the witness execution found by the solver must reach the same
            # goal when the harness is compiled natively against the real sources and fed the trace's inputs
            vals = self.trace_inputs(w[0]['trace'])
            inp = os.path.join(d, 'witness.inputs')
            with open(inp, 'w') as f:
                f.write(' '.join('%x' % v for v in vals) + '\n')
            kind, txt = self.native_replay(ob, inp, d, extra=['-DWITNESS'] + ob.witness_defs)
            ok = kind == 'reproduced' and 'WITNESS' in txt and 'AddressSanitizer' not in txt and 'runtime error' not in txt
            r['replayed'] = 'ok' if ok else 'mismatch'
            if not ok:
                r['replay_detail'] = txt[-600:]
        return r

    @staticmethod
    def trace_inputs(trace):
        vals = []
        for s in trace:
            if s.get('stepType') != 'assignment' or s.get('hidden'):
                continue
            fn = s.get('sourceLocation', {}).get('function', '')
            if s.get('lhs') == 'v' and fn in ('vt_int', 'vt_uint', 'vt_short', 'vt_char', 'vt_uchar', 'vt_float'):
                b = s['value'].get('binary')
                if b is not None:
                    vals.append(int(b, 2))
        return vals

    # ---------- counterexample handling ----------
    def extract_and_replay(self, ob, mr):
        """re-run with --trace, write the vt_* value list, replay natively. Returns (kind, path, text)"""
        d = mr['dir']
        env = dict(os.environ, TMPDIR=d)
        cmd = self.cbmc_cmd(ob, mr['gb'], False, trace=True)
        picked, seen_desc = [], set()
        for f in mr['failed']:
            key = (f['desc'], f['function'])
            if key in seen_desc or not f.get('property'):
                continue
            seen_desc.add(key)
            picked.append(f['property'])
        for pid in picked[:4]:
            cmd += ['--property', pid]
        budget = 3 * (ob.budget or (QUICK_BUDGET if self.tier == 'quick' else THOROUGH_BUDGET))
        rc, out, errt, secs, rss = sh(cmd, timeout=budget, mem_gb=ob.mem_gb + 4, cwd=d, env=env)
        rdir = os.path.join(VERIF, 'replays', self.prop)
        os.makedirs(rdir, exist_ok=True)
        tag = re.sub(r'[^\w.-]', '_', ob.name)
        results = []
        try:
            pj = json.loads(out)
        except Exception:
            pj = []
        res = None
        for e in pj:
            if 'result' in e:
                res = e['result']
        masks = [re.compile(m) for m in GLOBAL_MASK + ob.mask]
        seen = set()
        for p in (res or []):
            if p['status'] != 'FAILURE' or 'trace' not in p:
                continue
            desc = p.get('description', '')
            if any(m.search(desc) for m in masks) or self.copy_idiom(desc, p.get('sourceLocation', {})):
                continue
            vals, human = [], []
            for s in p['trace']:
                if s.get('stepType') != 'assignment' or s.get('hidden'):
                    continue
                fn = s.get('sourceLocation', {}).get('function', '')
                if fn.startswith('vt_') and s.get('lhs') == 'v' and fn in ('vt_int', 'vt_uint', 'vt_short', 'vt_char', 'vt_uchar', 'vt_float'):
                    b = s['value'].get('binary')
                    if b is None:
                        continue
                    vals.append(int(b, 2))
                    human.append('%s=%s' % (fn[3:], s['value'].get('data')))
            h = hashlib.sha1((' '.join('%x' % v for v in vals) + desc).encode()).hexdigest()[:10]
            if h in seen:
                continue
            seen.add(h)
            base = os.path.join(rdir, '%s-%s' % (tag, h))
            with open(base + '.inputs', 'w') as f:
                f.write(' '.join('%x' % v for v in vals) + '\n')
            sl = p.get('sourceLocation', {})
            with open(base + '.txt', 'w') as f:
                f.write('property: %s\nharness: %s (%s)\nfailed: %s\nat: %s:%s in %s\ninputs (vt_* order): %s\n' % (
                    self.prop, ob.name, ob.harness, desc, sl.get('file'), sl.get('line'), sl.get('function'), ' '.join(human)))
                f.write('replay: python3 %s/run.py %s --replay %s.inputs --only \'^%s$\'\n' % (VERIF, self.prop, base, re.escape(ob.name)))
            kind, txt = 'unreplayed', ''
            if ob.replay:
                kind, txt = self.native_replay(ob, base + '.inputs', d)
                with open(base + '.txt', 'a') as f:
                    f.write('native replay: %s\n%s\n' % (kind, txt[-4000:]))
            results.append(dict(desc=desc, loc='%s:%s' % (sl.get('file'), sl.get('line')), function=sl.get('function', ''),
                                kind=kind, path=base + '.txt', inputs=base + '.inputs'))
        return results

    def native_replay(self, ob, inputs, d, extra=()):
        exe = os.path.join(d, 'replay.exe')
        harness = os.path.join(VERIF, 'harness', ob.harness)
        srcs = [os.path.join(REPO, s) for s in ob.srcs]
        if ob.lib:
            return 'unreplayed', 'two-part (contract-instrumented) harness: no native replay'
        if ob.replace:
            return 'unreplayed', 'call-replaced harness: no native replay'
        cmd = ['gcc', '-O0', '-g', '-w', '-no-pie', '-Wl,--unresolved-symbols=ignore-all', '-fsanitize=address,undefined', '-fno-sanitize-recover=undefined', '-DVT_REPLAY'] + list(extra) + self.cc_args(ob, native=True) + \
              [harness, os.path.join(VERIF, 'harness', 'replay_main.c')] + srcs + ['-lm', '-o', exe]
        rc, o, e, _, _ = sh(cmd)
        if rc != 0:
            return 'unreplayed', 'native build failed: ' + e[-1500:]
        env = dict(os.environ, ASAN_OPTIONS='detect_leaks=0:abort_on_error=0', UBSAN_OPTIONS='print_stacktrace=1')
        rc, o, e, _, _ = sh([exe, inputs], timeout=120, env=env)
        txt = o + e
        if 'REPLAY-ASSERT-FAILED' in txt or 'AddressSanitizer' in txt or 'runtime error' in txt:
            return 'reproduced', txt
        if 'REPLAY-ASSUME-FAILED' in txt:
            return 'mismatch', txt
        if rc == -9:
            return 'reproduced', 'native run did not terminate within 120 s\n' + txt
        return 'not-reproduced', txt

    # ---------- whole property ----------
    def run(self, obs):
        t0 = time.time()
        sel = [o for o in obs if (self.tier == 'thorough' or o.tier == 'quick')]
        if self.only:
            rx = re.compile(self.only)
            sel = [o for o in sel if rx.search(o.name)]
        tasks = []
        with ThreadPoolExecutor(max_workers=self.jobs) as ex:
            # longest budgets first
            for o in sorted(sel, key=lambda o: -(o.budget or 0)):
                tasks.append((o, 'main', ex.submit(self.run_main, o)))
                if o.witness:
                    tasks.append((o, 'wit', ex.submit(self.run_witness, o)))
            results = {}
            for o, k, f in tasks:
                try:
                    results[(o.name, k)] = f.result()
                except Exception as e:  # driver bug: never hide it
                    results[(o.name, k)] = dict(name=o.name, kind=k, status='error', detail='driver exception %r' % e, seconds=0)
        broken, violations, known_hits, inconclusive = [], [], [], []
        samples = []
        n_eval = n_props = n_proved = n_nontrivial = 0
        n_vars = n_clauses = n_validated = 0
        mismatches = []
        solver_s = 0.0
        for o in sel:
            m = results[(o.name, 'main')]
            w = results.get((o.name, 'wit'))
            n_eval += 1 + (1 if w else 0)
            solver_s += m.get('seconds', 0) + (w.get('seconds', 0) if w else 0)
            line = '%-44s main=%-12s %6.1fs props=%d proved=%d' % (o.name, m['status'], m.get('seconds', 0), m.get('props', 0), m.get('proved', 0))
            if w:
                line += '  witness=%s %.1fs' % (w['status'], w.get('seconds', 0))
            log(line)
            if m['status'] in ('error', 'build-failed'):
                broken.append('%s: %s %s' % (o.name, m['status'], m['detail'][-1500:]))
            if w and w['status'] in ('error', 'build-failed'):
                broken.append('%s: witness %s %s' % (o.name, w['status'], w['detail'][-1500:]))
            if w and w['status'] == 'vacuous':
                broken.append('%s: VACUOUS - witness goal unreachable' % o.name)
            if m['status'] == 'inconclusive' or (w and w['status'] == 'inconclusive'):
                inconclusive.append(o.name)
                log('INCONCLUSIVE %s %s' % (o.name, m.get('detail', '')[:200]))
            n_vars += m.get('vars') or 0
            n_clauses += m.get('clauses') or 0
            if w and w.get('replayed') == 'ok':
                n_validated += 1
            if w and w.get('replayed') == 'mismatch':
                mismatches.append(o.name)
                log('WITNESS-REPLAY-MISMATCH %s: the witness execution found by the solver does not reach the goal natively: %s' % (o.name, w.get('replay_detail', '')[-300:].replace('\n', ' | ')))
            ok_w = (w is None) or w['status'] == 'reached'
            if m['status'] in ('proved', 'failed'):
                n_props += m['props']
                if ok_w:
                    n_proved += m['proved']
            if m['status'] == 'proved' and ok_w:
                n_nontrivial += 1
            if m['status'] == 'failed':
                cex = self.extract_and_replay(o, m)
                if not cex:
                    # no trace obtained: report from the property list
                    cex = [dict(desc=f['desc'], loc='%s:%s' % (f['file'], f['line']), function=f['function'], kind='unreplayed',
                                path=self.write_notrace(o, f), inputs=None) for f in m['failed'][:5]]
                for c in cex:
                    kf = self.match_known(o, c)
                    if kf:
                        known_hits.append((kf, c))
                        continue
                    if c['kind'] == 'mismatch' or c['kind'] == 'not-reproduced':
                        broken.append('%s: ENCODING-MISMATCH %s at %s does not reproduce natively (%s)' % (o.name, c['desc'], c['loc'], c['path']))
                    else:
                        violations.append((o, c))
            samples.append(dict(harness=o.name, file=o.harness, functions=o.functions, bounds=o.bounds, unwind=o.unwind,
                                unwindset=o.unwindset, stubs=o.stubs, assumptions=o.assumptions, status=m['status'],
                                witness=(w['status'] if w else 'none'), properties=m.get('props', 0), proved=m.get('proved', 0),
                                masked=len(m.get('masked', [])), variables=m.get('vars'), clauses=m.get('clauses'),
                                solver=o.solver, seconds=m.get('seconds', 0), witness_seconds=(w.get('seconds', 0) if w else 0),
                                witness_replayed_natively=(w.get('replayed') if w else 'n/a')))
        for kf, c in known_hits:
            log('KNOWN-FINDING: property=%s %s [%s at %s]' % (self.prop, kf['what'], c['desc'], c['loc']))
        seenv = set()
        for o, c in violations:
            key = (o.name, c['desc'], c['loc'])
            if key in seenv:
                continue
            seenv.add(key)
            log('VIOLATION property=%s replay=%s' % (self.prop, c['path']))
            log('  harness=%s failed="%s" at %s (%s; native replay: %s)' % (o.name, c['desc'], c['loc'], c['function'], c['kind']))
        for b in broken:
            log('CHECK-BROKEN ' + b)
        wall = time.time() - t0
        self.extra_cov = dict(states=n_vars, transitions=n_clauses, traces_validated_against_impl=n_validated, witness_replay_mismatches=mismatches)
        self.write_evidence(sel, samples, n_eval, n_nontrivial, n_props, n_proved, len(seenv), wall, solver_s, inconclusive, broken)
        log('%s tier=%s: %d obligations, %d proved+witnessed, %d CBMC properties (%d proved), %d inconclusive, %d violations, %.0fs wall, %.0fs solver' % (
            self.prop, self.tier, len(sel), n_nontrivial, n_props, n_proved, len(inconclusive), len(seenv), wall, solver_s))
        if seenv:
            return 1
        if broken:
            return 2
        return 0

    def write_notrace(self, o, f):
        rdir = os.path.join(VERIF, 'replays', self.prop)
        os.makedirs(rdir, exist_ok=True)
        p = os.path.join(rdir, '%s-notrace.txt' % re.sub(r'[^\w.-]', '_', o.name))
        with open(p, 'w') as fh:
            fh.write('property: %s\nharness: %s\nfailed: %s at %s:%s in %s (no trace could be extracted)\n' % (
                self.prop, o.name, f['desc'], f['file'], f['line'], f['function']))
        return p

    def match_known(self, o, c):
        for k in self.known:
            if k['prop'] == self.prop and re.search(k['harness'], o.name) and re.search(k['rx'], '%s @%s %s' % (c['desc'], c['loc'], c['function'])):
                return k
        return None

    def write_evidence(self, sel, samples, n_eval, n_nontrivial, n_props, n_proved, nviol, wall, solver_s, inconclusive, broken):
        mod = self.module
        ev = dict(property_id=self.prop, tier=self.tier, seed=int(os.environ.get('VERIF_SEED', '0') or 0), level='model_checking',
                  coverage=dict(evaluations=n_eval, distinct_nontrivial=n_nontrivial,
                                rule='one case = one harness instance (a CBMC query over all inputs within its stated bounds, regenerated from /repo sources); '
                                     'counted non-trivial only if every assertion was proved AND its -DWITNESS twin reached its reachability goal',
                                obligations=n_props, discharged=n_proved, samples=samples,
                                checker_cmd='goto-cc + cbmc 6.11 --unwinding-assertions --signed-overflow-check --undefined-shift-check (kissat back end)',
                                solver_seconds=round(solver_s, 1), inconclusive=inconclusive, broken=broken[:10],
                                outside_claim=getattr(mod, 'OUTSIDE', ''), exhaustive=False,
                                states_transitions_meaning='states = propositional variables, transitions = clauses of the SAT encodings of the symbolic executions decided in this run (summed over harnesses); traces_validated_against_impl = witness executions found by the solver that reached the same goal when replayed natively (gcc, ASan/UBSan) against the real sources'),
                  assumptions=getattr(mod, 'ASSUMPTIONS', []), wall_s=round(wall, 1), violations=nviol)
        ev['coverage'].update(self.extra_cov)
        ev['coverage']['states'] = max(1, ev['coverage']['states'])
        ev['coverage']['transitions'] = max(1, ev['coverage']['transitions'])
        evdir = os.environ.get('VERIF_EVIDENCE_DIR') or os.path.join(VERIF, 'evidence')   # redirected only by seeded/tools/trial.sh
        os.makedirs(evdir, exist_ok=True)
        path = os.path.join(evdir, self.prop + '.json') if not self.only else os.path.join(self.scratch, 'partial-evidence.json')
        with open(path, 'w') as f:
            json.dump(ev, f, indent=1)


def load_prop(pid):
    p = os.path.join(VERIF, 'props', pid + '.py')
    spec = importlib.util.spec_from_file_location('prop_' + pid, p)
    m = importlib.util.module_from_spec(spec)
    m.Ob = Ob
    m.REPO = REPO
    m.VERIF = VERIF
    spec.loader.exec_module(m)
    return m


def main():
    ap = argparse.ArgumentParser()
    ap.add_argument('prop')
    ap.add_argument('--tier', default=os.environ.get('VERIF_TIER', 'quick'))
    ap.add_argument('--only')
    ap.add_argument('--jobs', type=int, default=int(os.environ.get('VERIF_JOBS', '0')) or max(2, min(16, (os.cpu_count() or 4))))
    ap.add_argument('--keep', action='store_true')
    ap.add_argument('--list', action='store_true')
    ap.add_argument('--replay')
    a = ap.parse_args()
    if a.tier not in ('quick', 'thorough'):
        a.tier = 'quick'
    m = load_prop(a.prop)
    obs = m.obligations()
    if a.list:
        for o in obs:
            print(o.tier, o.name, o.harness, ' '.join(o.defs))
        return 0
    r = Runner(a.prop, a.tier, a.only, a.jobs, a.keep)
    r.module = m
    if a.replay:
        rx = re.compile(a.only or '.')
        for o in obs:
            if rx.search(o.name):
                d = os.path.join(r.scratch, 'replay')
                os.makedirs(d, exist_ok=True)
                kind, txt = r.native_replay(o, a.replay, d)
                print(txt)
                print('replay:', kind)
                return 1 if kind == 'reproduced' else 0
        return 2
    return r.run(obs)


if __name__ == '__main__':
    sys.exit(main())
