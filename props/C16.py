# C16 - packet extensions (DESIGN.md section 2, C16)
ASSUMPTIONS = ['H1b composes by contract: skip_extension(_payload) are stubs whose guarantees H1a proves on the real code; the recursive self-call is an inductive-hypothesis stub']
OUTSIDE = ('the iterator/generator above the leaf parsers: a generate->parse round-trip harness (harness/C16_genparse.c, kept for reference) gave no verdict even for one extension in one frame '
           '(recursion inside nested loops inlines >1500 leaf instances); repacketizer carriage of extensions')

def obligations():
    L = []
    L.append(Ob('H1a.leaves.len300', 'C16_leaves.c', [], ['-DEL=300'], unwind=1, unwindset=['harness:301', 'skip_extension_payload:4'],
                functions=['skip_extension_payload', 'skip_extension'], budget=600,
                bounds='any buffer of 0..300 bytes (exact-size object), any offset, any id byte, any trailing_short_len >= 0'))
    L.append(Ob('H1a.leaves.len24.exact', 'C16_leaves.c', [], ['-DEL=24', '-DEXACT'], unwind=1, unwindset=['harness:25', 'skip_extension_payload:4'],
                functions=['skip_extension_payload', 'skip_extension'], budget=600,
                bounds='any buffer of 0..24 bytes in an exact-size heap object (reads before the start are caught too), any offset, any id byte'))
    return L
