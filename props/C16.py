# C16 - packet extensions (DESIGN.md section 2, C16)
ASSUMPTIONS = ['H1b composes by contract: skip_extension(_payload) are stubs whose guarantees H1a proves on the real code; the recursive self-call is an inductive-hypothesis stub']
OUTSIDE = ('the extension iterator and opus_packet_extensions_generate above the leaf parsers/writers: a generate->parse round-trip harness (harness/C16_genparse.c, kept for reference) gave no verdict even for one extension in one frame '
           '(recursion inside nested loops inlines >1500 leaf instances); repacketizer carriage of extensions')

def obligations():
    L = []
    L.append(Ob('H1a.leaves.len300', 'C16_leaves.c', [], ['-DEL=300'], unwind=1, unwindset=['harness:301', 'skip_extension_payload:4'],
                functions=['skip_extension_payload', 'skip_extension'], budget=600,
                bounds='any buffer of 0..300 bytes (exact-size object), any offset, any id byte, any trailing_short_len >= 0'))
    L.append(Ob('H1a.leaves.len24.exact', 'C16_leaves.c', [], ['-DEL=24', '-DEXACT'], unwind=1, unwindset=['harness:25', 'skip_extension_payload:4'],
                functions=['skip_extension_payload', 'skip_extension'], budget=600,
                bounds='any buffer of 0..24 bytes in an exact-size heap object (reads before the start are caught too), any offset, any id byte'))
    for xl in (-1, 0, 1, 2, 254, 255, 256, 509, 510, 511):
        L.append(Ob('H2a.write_leaves.payload%s' % str(xl).replace('-', 'm'), 'C16_write.c', [], ['-DXLEN=%d' % xl], unwind=1, native_mem=True,
                    unwindset=['harness:%d' % (xl + max(xl, 0) // 255 + 10), 'write_extension_payload:%d' % (max(xl, 0) // 255 + 2), 'skip_extension_payload:%d' % (max(xl, 0) // 255 + 3)],
                    functions=['write_extension', 'write_extension_payload', 'skip_extension'], budget=900, tier=('quick' if xl <= 256 else 'thorough'),
                    bounds='payload length %d (case selector); any exact-size output buffer of 0..coded size+8 bytes, pos 0..3, any id 3..127, last 0/1' % xl))
    for ln, nf, ph, tier in [(l, 3, p, 'quick' if l <= 3 else 'thorough') for l in range(0, 6) for p in (0, 1)]:
        if ln < 2 and ph == 1:
            continue      # a repeat needs a source region and an indicator byte: unreachable below 2 bytes (the invariant is unsatisfiable)
        L.append(Ob('H1b.iterator_step.len%d.%s' % (ln, 'in_repeat' if ph else 'main'), 'C16_iter.c', [], ['-DIT_EL=%d' % ln, '-DIT_LEN=%d' % ln, '-DIT_NF=%d' % nf, '-DIT_PHASE=%d' % ph], lib=['C16_iter_lib.c'],
                    replace=['opus_extension_iterator_next:vt_ih_next'], unwind=1, budget=900, tier=tier, witness=(ln >= 3),
                    unwindset=['harness:%d' % (ln + 2), 'sp_consumed:%d' % (ln + 2), 'sp_wellformed:%d' % (ln + 2), 'skip_extension_payload:%d' % (ln + 2),
                               'opus_extension_iterator_next:%d' % (max(ln, nf) + 2)],
                    functions=['opus_extension_iterator_next', 'skip_extension', 'skip_extension_payload'],
                    stubs=['recursive self-call of opus_extension_iterator_next: inductive-hypothesis stub (pre: invariant, strictly fewer bytes left; post: what this harness asserts)'],
                    assumptions=['iterator state satisfies it_inv (harness/C16_iter_lib.c): offsets consistent, repeat source region is a sequence of whole extensions without a repeat indicator, 0<=frame_max<=nb_frames'],
                    bounds='one call from any iterator state satisfying the invariant (%s) over any buffer of exactly %d bytes, nb_frames <= %d; inductive in the number of calls' % ('inside a repeat' if ph else 'outside a repeat', ln, nf)))
    cases = [(3, 24, (1, 1, 1, 0), 0, 3, 'quick'), (3, 24, (1, 1, 1, 0), 1, 3, 'quick'), (3, 24, (0, 2, 1, 0), 1, 2, 'quick'), (3, 24, (2, 0, 1, 0), 2, 3, 'quick'),
             (3, 24, (0, 2, 1, 0), 0, 2, 'thorough'), (3, 24, (2, 0, 0, 0), 0, 1, 'thorough'), (3, 24, (0, 0, 0, 0), 0, 3, 'thorough'),
             (4, 300, (1, 0, 2, 1), 1, 4, 'thorough'), (4, 300, (1, 1, 1, 1), 0, 4, 'thorough'), (4, 300, (0, 1, 0, 2), 2, 4, 'thorough')]
    for f, ol, pat, bg, en, tier in cases:
        L.append(Ob('H3.carriage.f%d.out%d.ext%s.range%d_%d' % (f, ol, ''.join(map(str, pat[:f])), bg, en), 'C16_carriage.c', ['src/repacketizer.c', 'src/opus.c'],
                    ['-DF=%d' % f, '-DOL=%d' % ol, '-DBEGIN=%d' % bg, '-DEND=%d' % en] + ['-DN%d=%d' % (i, pat[i]) for i in range(4)], unwind=1, memwords=8, witness=(sum(pat[bg:en]) > 0),
                    unwindset=['harness:%d' % (max(ol + 2, 2 * f + 2)), 'slot_of:%d' % (f + 1), 'opus_packet_extensions_parse:3', 'opus_packet_extensions_generate:%d' % (2 * f + 1),
                               'opus_repacketizer_out_range_impl:%d' % (max(f, 3) + ol // 255 + 2), 'opus_repacketizer_out_range_impl@ones_end:%d' % (ol + 2),
                               'opus_repacketizer_out_range_impl@ext_count<nb_extensions:2', 'opus_packet_parse_impl:%d' % (max(f + 2, ol // 255 + 3))],
                    functions=['opus_repacketizer_out_range_impl', 'opus_packet_parse_impl'], budget=900, tier=tier,
                    stubs=['opus_packet_extensions_count/_parse/_generate: contract stubs over an abstract extension list (coded size E any value)'],
                    bounds='%d single-frame slots of 0..1 bytes with %s extensions (case selector), range [%d,%d) (case selector), any maxlen 0..%d, any coded extension size 1..%d, any ids/lengths, both framings' % (f, pat[:f], bg, en, ol, ol)))
    return L
