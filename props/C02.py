# C02 - every encoded packet is valid and decodes in lock-step (DESIGN.md section 2, C02)
ASSUMPTIONS = ['symbol-layer symmetry is decided over a tape range coder (encoder ops recorded, decoder ops checked against the record); the real coder is C08',
               'the frame encoders/decoders (float DSP) are not executed']
OUTSIDE = ('that the real SILK/CELT frame encoders respect their byte budget; final-range equality through the real coders; the RFC reference decoder (absent); '
           'FUZZING build; RTCD levels; the opus_encode_native glue (contract-stub harness of the design was not built in this round)')
TAB = ['silk/tables_NLSF_CB_NB_MB.c', 'silk/tables_NLSF_CB_WB.c', 'silk/tables_other.c', 'silk/tables_gain.c', 'silk/tables_pitch_lag.c', 'silk/tables_LTP.c', 'silk/tables_pulses_per_block.c']

import os, importlib.util
_s = importlib.util.spec_from_file_location('vt_glue', os.path.join(VERIF, 'props', '_glue.py')); _g = importlib.util.module_from_spec(_s); _s.loader.exec_module(_g)
import os as _os, importlib.util as _ilu
_s2 = _ilu.spec_from_file_location('vt_glue2', _os.path.join(VERIF, 'props', '_glue.py')); _g2 = _ilu.module_from_spec(_s2); _s2.loader.exec_module(_g2)
def obligations():
    L = []
    conds = ['CODE_INDEPENDENTLY', 'CODE_INDEPENDENTLY_NO_LTP_SCALING', 'CODE_CONDITIONALLY']
    quick = {(8, 4, 0), (12, 4, 2), (16, 4, 0), (16, 2, 2), (16, 4, 1), (8, 2, 1)}
    for fs in (8, 12, 16):
        for nb in (2, 4):
            for ci, cond in enumerate(conds):
                L.append(Ob('H1.indices.fs%d.nb%d.%s' % (fs, nb, cond.lower()), 'C02_indices.c', ['silk/encode_indices.c', 'silk/decode_indices.c', 'silk/NLSF_unpack.c'] + TAB,
                            ['-DFIX', '-DFIX_FS=%d' % fs, '-DFIX_NB=%d' % nb, '-DFIX_COND=%s' % cond], unwind=1,
                            unwindset=['harness:18', 'silk_encode_indices:18', 'silk_decode_indices:18', 'silk_NLSF_unpack:18'],
                            functions=['silk_encode_indices', 'silk_decode_indices'], budget=900, tier='quick' if (fs, nb, ci) in quick else 'thorough',
                            bounds='every legal SideInfoIndices value, previous signal type / lag index symbolic; fs=%d kHz, %d sub-frames, %s' % (fs, nb, cond),
                            stubs=['ec_enc_icdf/ec_dec_icdf: tape coder']))
    L.append(Ob('H2.gen_toc', 'C02_toc.c', ['src/opus.c', 'src/opus_decoder.c'], [], unwind=1, unwindset=['gen_toc:9'], functions=['gen_toc', 'opus_packet_get_bandwidth'], budget=300,
                bounds='every legal (mode, duration 2.5..60 ms, bandwidth, channels, Fs) combination'))
    for fsi, dur in [(0, 6), (4, 3)]:
        L.append(_g.glue_ob(Ob, 'H3.glue', fsi, dur, 'quick'))
    for fsi, dur in [(f, d) for f in range(5) for d in range(9) if (f, d) not in [(0, 6), (4, 3), (2, 8), (1, 5)]][::4]:
        L.append(_g.glue_ob(Ob, 'H3.glue', fsi, dur, 'thorough'))
    for ns, nc, fsi, dur, tier in ((2, 1, 4, 3, 'quick'), (3, 0, 2, 2, 'thorough'), (2, 2, 0, 7, 'thorough')):
        L.append(_g2.msenc_ob(Ob, 'H4.multistream_concatenation', ns, nc, fsi, dur, tier))
    # H5: the per-frame glue (C05-H2 harness): TOC of what was coded, redundant frame inside the packet, whole-frame NaN guard
    for mode, fsi, dur, ch, ld, maxb, tier in ((1002, 4, 0, 2, 1, 40, 'quick'), (1002, 3, 3, 2, 0, 24, 'thorough'), (1001, 3, 3, 2, 0, 24, 'thorough'), (1000, 2, 5, 2, 0, 80, 'thorough')):
        L.append(_g2.frame_ob(Ob, 'H5.frame_glue', mode, fsi, dur, ch, ld, tier, maxb=maxb, budget=(900 if tier == 'quick' else 1500)))
    return L
