# C09 - packet loss: the decidable part of the contract (DESIGN.md section 2, C09): duration and placement of concealment and FEC
ASSUMPTIONS = ['opus_decode_frame is a synth stub that returns the durations the real function may return (that rule is asserted on the real body by C01-H3) and logs where it is asked to write',
               'decoder pre-state: any value satisfying validate_opus_decoder']
OUTSIDE = ('everything about the concealed audio itself: level bound, decay under sustained loss, FEC accuracy versus concealment, re-convergence after loss (float synthesis; no bounded encoding within reach); '
           'final-range equality of received packets; loss patterns as sequences (one call from an arbitrary state is decided, which covers every history that keeps the stated invariant)')
INS_SRC = ['src/opus.c', 'src/opus_decoder.c']
FSN = [8000, 12000, 16000, 24000, 48000]

def obligations():
    L = []
    for fsi, sd, tier, pl, mc, ms in ((0, 0, 'quick', 4, 2, 40), (4, 0, 'quick', 4, 2, 40), (0, 0, 'thorough', 8, 4, 120), (4, 0, 'thorough', 8, 4, 120), (2, 1, 'thorough', 8, 4, 120)):
        L.append(Ob('H1.plc_fec_duration_and_placement.fs%d.sd%d.max%dms' % (FSN[fsi], sd, ms), 'C01_native.c', ['src/opus.c'],
                    ['-DFSI=%d' % fsi, '-DSD=%d' % sd, '-DPL=%d' % pl, '-DMAXC=%d' % mc, '-DMAXMS=%d' % ms, '-DC09ONLY'], unwind=1,
                    replace=['opus_decode_frame_REAL:stub_decode_frame'],
                    unwindset=['harness:9', 'opus_decode_native:2', 'opus_decode_native@pcm_count < frame_size:%d' % (ms * 2 // 5 + 2), 'opus_decode_native@i<count:%d' % (mc + 2), 'rec:opus_decode_native:3', 'opus_packet_parse_impl:%d' % (pl + 1), 'rfc_parse:%d' % (pl + 1)],
                    functions=['opus_decode_native', 'opus_packet_parse_impl'], budget=(900 if tier == 'quick' else 3000), tier=tier, replay=False, mem_gb=16,
                    stubs=['opus_decode_frame: synth stub (C01-H3 contract)'],
                    bounds='Fs=%d; any decoder state; NULL / empty packet, or decode_fec=1 with any %d-byte packet (<= %d frames, any len); any frame_size from 1 sample to %d ms' % (FSN[fsi], pl, mc, ms)))
    # the concealment size rule on the real opus_decode_frame (C01-H3 harness restricted to NULL packets)
    for fsi, tier in ((0, 'thorough'),):
        F20 = FSN[fsi] // 50
        L.append(Ob('H3.concealment_size_rule.fs%d' % FSN[fsi], 'C01_frame.c', ['celt/entdec.c', 'celt/entcode.c'], ['-DFSI=%d' % fsi, '-DPL=6', '-DPLCONLY', '-DCHSEL=1'], unwind=1,
                    replace=['smooth_fade_REAL:stub_fade'], memwords=F20 // 2 + 2,
                    unwindset=['harness:7', 'opus_decode_frame:%d' % (F20 // 2 + 6), 'opus_decode_frame@decoded_samples < frame_size:5', 'opus_decode_frame@audiosize > 0:8',
                               'opus_decode_frame@c<st->channels:3', 'opus_decode_frame@i<F2_5:%d' % (F20 // 8 + 1), 'rec:opus_decode_frame:3', 'ec_dec_init:5', 'ec_dec_normalize:5', 'ec_dec_uint:3', 'ec_dec_bits:5'],
                    functions=['opus_decode_frame'], budget=3000, tier=tier, replay=False, mem_gb=16,
                    stubs=['silk_Decode, celt_decode_with_ec(_dred), smooth_fade: synth stubs touching exactly the region their contract lets them write', 'celt_decoder_ctl: argument-checking stub'],
                    bounds='concealment requests (NULL packet) on the real opus_decode_frame: Fs=%d; any mode / previous mode / redundancy / last frame duration, mono; any frame_size 0..10 ms + 3 samples in an exact-size buffer' % FSN[fsi]))
    L.append(Ob('H2.has_lbrr_flag_positions', 'C01_inspect.c', INS_SRC, ['-DMAXLEN=12', '-DCODE=0'], unwind=1,
                unwindset=['harness:13', 'harness.2:49', 'opus_packet_parse_impl:4'], functions=['opus_packet_has_lbrr'], budget=600,
                bounds='any code-0 packet of 0..12 bytes: opus_packet_has_lbrr == the LBRR flag at its RFC 6716 4.2.3 position for 10/20/40/60 ms mono/stereo SILK and hybrid frames, 0 for CELT'))
    return L
