# C17 - PVQ, Laplace, ICDF tables, pulse cache (DESIGN.md section 2, C17)
import re, os, glob
ASSUMPTIONS = ['float build, non-SMALL_FOOTPRINT cwrs (static U table) as in the pinned build',
               'Laplace harness replaces the range coder by a tape (the real coder is C08)']
OUTSIDE = 'PVQ bijection for (N,K) beyond the listed pairs; Laplace _p0 (DRED-only) variants; pulse-cache consistency (H5) beyond the listed bands'

def gen_icdf(d):
    """scan silk/ and celt/ for static ICDF tables; emit includes + CHECK lines"""
    files = sorted(glob.glob(os.path.join(REPO, 'silk', 'tables_*.c')) + [os.path.join(REPO, 'celt', 'celt.h'), os.path.join(REPO, 'celt', 'quant_bands.c')])
    checks, incs = [], []
    rx = re.compile(r'^\s*(static\s+)?const\s+(opus_uint8|unsigned char)\s+(\w*(?:icdf|iCDF|shell_code_table\d)\w*)\s*((?:\[[^\]]*\]\s*)+)=', re.M)
    for f in files:
        txt = open(f).read()
        found = False
        for m in rx.finditer(txt):
            name = m.group(3)
            if name == 'silk_sign_iCDF':      # not an ICDF table: values used as the single entry of {v,0}
                checks.append('{ int i=vt_range(0,(int)sizeof(silk_sign_iCDF)-1); VASSERT(silk_sign_iCDF[i]>0,"silk_sign_iCDF: usable as first entry of a 2-entry table"); cnt++; }')
                found = True
                continue
            ndim = m.group(4).count('[')
            checks.append(('CHECK(%s, (int)sizeof(%s));' if ndim == 1 else 'CHECK2(%s, (int)(sizeof(%s)/sizeof(%s[0])), (int)sizeof(%s[0]));').replace('%s', name))
            found = True
        if found and f.endswith('.c') and 'quant_bands' not in f:
            incs.append('#include "%s"' % f)
    incs.append('#include "%s"' % os.path.join(REPO, 'celt', 'quant_bands.c'))
    open(os.path.join(d, 'icdf_includes.h'), 'w').write('\n'.join(incs) + '\n')
    open(os.path.join(d, 'icdf_checks.h'), 'w').write('\n'.join(checks) + '\n')

def obligations():
    L = [Ob('H1.utable', 'C17_utable.c', [], [], unwind=1, unwindset=['harness:16'], functions=[], budget=300,
            bounds='every stored (n,k) of CELT_PVQ_U_DATA with its three predecessors stored (symbolic n<=14, k<=200)')]
    pairs_q = [(2, 8), (2, 40), (3, 8), (3, 20), (4, 4)]
    pairs_t = [(4, 8), (5, 3), (6, 3), (8, 2), (3, 40), (4, 12), (5, 5), (6, 4), (8, 3), (8, 4), (12, 2), (16, 2), (16, 3), (24, 2), (32, 2), (2, 128), (3, 80)]
    for (n, k) in pairs_q + pairs_t:
        q = (n, k) in pairs_q
        L.append(Ob('H2.cwrs.n%d.k%d' % (n, k), 'C17_cwrs.c', [], ['-DNN=%d' % n, '-DKK=%d' % k], unwind=1,
                    unwindset=['harness:%d' % (n + 1), 'cwrsi:%d' % (n + k + 3), 'icwrs:%d' % (n + 1)], functions=['cwrsi', 'icwrs'],
                    tier='quick' if q else 'thorough', budget=600 if q else 1500,
                    bounds='N=%d K=%d: every index below V(N,K) and every K-pulse vector (both symbolic)' % (n, k)))
    for dr, nm in ((0, 'decode-encode'), (1, 'encode-decode')):
        L.append(Ob('H3.laplace.' + nm, 'C17_laplace.c', ['celt/laplace.c'], ['-DDIR=%d' % dr], unwind=1,
                    unwindset=['ec_laplace_encode:42', 'ec_laplace_decode:42'], functions=['ec_laplace_encode', 'ec_laplace_decode'], budget=900,
                    bounds='every (LM,intra,band) entry of e_prob_model (symbolic), every fm<32768 / every value in int16',
                    stubs=['ec_decode_bin/ec_dec_update/ec_encode_bin: tape stubs']))
    L.append(Ob('H4.icdf_tables', 'C17_icdf.c', [], [], unwind=1, unwindset=[], gen=gen_icdf, functions=[], budget=300,
                bounds='every static ICDF table of silk/tables_*.c, celt/celt.h, celt/quant_bands.c found by the source scan; symbolic index'))
    L.append(Ob('H5.pulse_cache', 'C17_pcache.c', [], [], unwind=1, unwindset=['bits2pulses:8', 'spec_log2_frac:5'], functions=['bits2pulses'], budget=600,
                bounds='static 48 kHz mode: every (LM+1 in 0..4, band in 0..20, pseudo-pulse p) symbolic; bits in 0..2048',
                assumptions=['bit-cost definition = spec/log2_frac.h (copy of the CUSTOM_MODES generator code)']))
    return L
