# C11 - settings validated, read back, honoured (DESIGN.md section 2, C11)
ASSUMPTIONS = ['state = arbitrary bytes (havocked object) with only offsets and channels constrained: covers every reachable history',
               'celt_encoder_ctl / celt_decoder_ctl are recording stubs; sub-codec initialisers succeed or fail arbitrarily']
OUTSIDE = ('honouring of settings in the produced bitstream (needs the encode path: C02-H3 glue harness); multistream/projection ctl forwarding; '
           'OPUS_GET_BITRATE for the AUTO/MAX sentinels (symbolic division)')
A, MAXB = '(-1000)', '(-1)'
ENC = [  # name, set, get, LEGAL(v,st), FIELD(st) or None, EXPECT(v,st) or None
 ('application', 'OPUS_SET_APPLICATION_REQUEST', 'OPUS_GET_APPLICATION_REQUEST', '(((v)==2048||(v)==2049||(v)==2051)&&((st)->first||(st)->application==(v)))', '(st)->application', None),
 ('bitrate', 'OPUS_SET_BITRATE_REQUEST', None, '((v)==-1000||(v)==-1||(v)>0)', '(st)->user_bitrate_bps', '(((v)==-1000||(v)==-1)?(v):((v)<=500?500:((v)>300000*(st)->channels?300000*(st)->channels:(v))))'),
 ('force_channels', 'OPUS_SET_FORCE_CHANNELS_REQUEST', 'OPUS_GET_FORCE_CHANNELS_REQUEST', '((v)==-1000||((v)>=1&&(v)<=(st)->channels))', '(st)->force_channels', None),
 ('max_bandwidth', 'OPUS_SET_MAX_BANDWIDTH_REQUEST', 'OPUS_GET_MAX_BANDWIDTH_REQUEST', '((v)>=1101&&(v)<=1105)', '(st)->max_bandwidth', None),
 ('bandwidth', 'OPUS_SET_BANDWIDTH_REQUEST', None, '((v)==-1000||((v)>=1101&&(v)<=1105))', '(st)->user_bandwidth', None),
 ('dtx', 'OPUS_SET_DTX_REQUEST', 'OPUS_GET_DTX_REQUEST', '((v)==0||(v)==1)', '(st)->use_dtx', None),
 ('complexity', 'OPUS_SET_COMPLEXITY_REQUEST', 'OPUS_GET_COMPLEXITY_REQUEST', '((v)>=0&&(v)<=10)', '(st)->silk_mode.complexity', None),
 ('inband_fec', 'OPUS_SET_INBAND_FEC_REQUEST', 'OPUS_GET_INBAND_FEC_REQUEST', '((v)>=0&&(v)<=2)', '(st)->fec_config', None),
 ('packet_loss_perc', 'OPUS_SET_PACKET_LOSS_PERC_REQUEST', 'OPUS_GET_PACKET_LOSS_PERC_REQUEST', '((v)>=0&&(v)<=100)', '(st)->silk_mode.packetLossPercentage', None),
 ('vbr', 'OPUS_SET_VBR_REQUEST', 'OPUS_GET_VBR_REQUEST', '((v)==0||(v)==1)', '(st)->use_vbr', None),
 ('voice_ratio', 'OPUS_SET_VOICE_RATIO_REQUEST', 'OPUS_GET_VOICE_RATIO_REQUEST', '((v)>=-1&&(v)<=100)', '(st)->voice_ratio', None),
 ('vbr_constraint', 'OPUS_SET_VBR_CONSTRAINT_REQUEST', 'OPUS_GET_VBR_CONSTRAINT_REQUEST', '((v)==0||(v)==1)', '(st)->vbr_constraint', None),
 ('signal', 'OPUS_SET_SIGNAL_REQUEST', 'OPUS_GET_SIGNAL_REQUEST', '((v)==-1000||(v)==3001||(v)==3002)', '(st)->signal_type', None),
 ('lsb_depth', 'OPUS_SET_LSB_DEPTH_REQUEST', 'OPUS_GET_LSB_DEPTH_REQUEST', '((v)>=8&&(v)<=24)', '(st)->lsb_depth', None),
 ('expert_frame_duration', 'OPUS_SET_EXPERT_FRAME_DURATION_REQUEST', 'OPUS_GET_EXPERT_FRAME_DURATION_REQUEST', '((v)>=5000&&(v)<=5009)', '(st)->variable_duration', None),
 ('prediction_disabled', 'OPUS_SET_PREDICTION_DISABLED_REQUEST', 'OPUS_GET_PREDICTION_DISABLED_REQUEST', '((v)==0||(v)==1)', '(st)->silk_mode.reducedDependency', None),
 ('phase_inversion_disabled', 'OPUS_SET_PHASE_INVERSION_DISABLED_REQUEST', 'OPUS_GET_PHASE_INVERSION_DISABLED_REQUEST', '((v)==0||(v)==1)', None, None),
 ('force_mode', 'OPUS_SET_FORCE_MODE_REQUEST', None, '((v)==-1000||((v)>=1000&&(v)<=1002))', '(st)->user_forced_mode', None),
]
DEC = [
 ('gain', 'OPUS_SET_GAIN_REQUEST', 'OPUS_GET_GAIN_REQUEST', '((v)>=-32768&&(v)<=32767)'),
 ('complexity', 'OPUS_SET_COMPLEXITY_REQUEST', 'OPUS_GET_COMPLEXITY_REQUEST', '((v)>=0&&(v)<=10)'),
 ('phase_inversion_disabled', 'OPUS_SET_PHASE_INVERSION_DISABLED_REQUEST', 'OPUS_GET_PHASE_INVERSION_DISABLED_REQUEST', '((v)==0||(v)==1)'),
]
QUICK_ENC = {'application', 'bitrate', 'force_channels', 'bandwidth', 'complexity', 'lsb_depth', 'expert_frame_duration', 'phase_inversion_disabled', 'force_mode'}

import os, importlib.util
_s = importlib.util.spec_from_file_location('vt_glue', os.path.join(VERIF, 'props', '_glue.py')); _g = importlib.util.module_from_spec(_s); _s.loader.exec_module(_g)
def obligations():
    L = []
    for name, rs, rg, legal, field, expect in ENC:
        defs = ['-DREQ_SET=' + rs, '-DLEGAL(v,st)=' + legal, '-DEXPECT(v,st)=' + (expect or '(v)')]
        if rg:
            defs.append('-DREQ_GET=' + rg)
        else:
            defs.append('-DNOGET')
        if field:
            defs.append('-DFIELD(st)=' + field)
        L.append(Ob('H1.enc_ctl.' + name, 'C11_enc_ctl.c', [], defs, unwind=1, functions=['opus_encoder_ctl'], budget=600, replay=False,
                    tier='quick' if name in QUICK_ENC else 'thorough',
                    bounds='any int32 value, any encoder state bytes (channels 1..2), request ' + rs,
                    stubs=['celt_encoder_ctl: recording stub']))
    L.append(Ob('H1.enc_ctl.unknown_request', 'C11_enc_ctl.c', [], ['-DUNKNOWN_REQUEST'], unwind=1, functions=['opus_encoder_ctl'], budget=600, replay=False,
                bounds='any request number below 4000 or above 11050, any state'))
    for name, rs, rg, legal in DEC:
        L.append(Ob('H1.dec_ctl.' + name, 'C11_dec_ctl.c', [], ['-DREQ_SET=' + rs, '-DREQ_GET=' + rg, '-DLEGAL(v,st)=' + legal], unwind=1,
                    functions=['opus_decoder_ctl'], budget=600, replay=False, bounds='any int32 value, any decoder state bytes, request ' + rs,
                    stubs=['celt_decoder_ctl: recording stub']))
    L.append(Ob('H1.dec_ctl.unknown_request', 'C11_dec_ctl.c', [], ['-DUNKNOWN_REQUEST'], unwind=1, functions=['opus_decoder_ctl'], budget=600, replay=False,
                bounds='any request number below 4000 or above 11050, any state'))
    for fsi, dur in [(3, 3), (1, 1), (4, 4), (0, 2), (2, 6)]:
        L.append(_g.glue_ob(Ob, 'H3.honoured_in_glue', fsi, dur, 'quick'))
    for fsi, dur in [(f, d) for f in range(5) for d in range(9) if (f, d) not in [(3, 3), (1, 1), (4, 4), (0, 2), (2, 6)]][::4]:
        L.append(_g.glue_ob(Ob, 'H3.honoured_in_glue', fsi, dur, 'thorough'))
    return L
