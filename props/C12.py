# C12 - codec state is deterministic, freely copyable and reset-equivalent (DESIGN.md section 2, C12)
ASSUMPTIONS = ['cbmc library models of memset/memcpy (constant sizes) instead of the word-loop wrappers; the harness asserts known cleared/initial values and compares two differently havocked objects, which a wrong model would break',
               'C (non-RTCD) build: opus_select_arch() is the constant 0',
               'whole-state equality is asserted for one symbolic byte index (equivalent to all bytes)',
               'malloc assumed non-NULL; the objects are exact-size heap objects with arbitrary initial contents']
OUTSIDE = ('behavioural equivalence through encode/decode calls (the claim is about the state bytes after init / reset, which determine all later behaviour because the '
           'codec has no other mutable storage); stale fields in front of the reset markers that reset does not restore and that are overwritten before use '
           '(DecControl.nChannelsInternal/internalSampleRate/payloadSize_ms/prevPitchLag/enable_deep_plc, silk_decoder.nChannelsAPI/nChannelsInternal); RTCD levels')
DEC_SRC = ['silk/init_decoder.c', 'silk/CNG.c', 'silk/PLC.c', 'celt/modes.c', 'celt/celt.c']

def obligations():
    L = []
    for ch in (1, 2):
        L.append(Ob('H1.decoder.init_independent_of_memory.ch%d' % ch, 'C12_dec.c', DEC_SRC, ['-DCH=%d' % ch, '-DMODE=0'], unwind=1, native_mem=True,
                    unwindset=['opus_custom_decoder_ctl:43', 'silk_CNG_Reset:17', 'silk_ResetDecoder:3', 'silk_InitDecoder:3', 'opus_custom_mode_create:5'],
                    functions=['opus_decoder_init', 'silk_reset_decoder', 'opus_custom_decoder_ctl'],
                    budget=1200, replay=False, mem_gb=16, tier=('quick' if ch == 1 else 'thorough'),
                    bounds='any Fs of the five legal rates, %d channel(s), any previous contents of two exact-size objects' % ch))
    L.append(Ob('H2.decoder.reset_equals_fresh.silk', 'C12_dec_parts.c', ['silk/init_decoder.c', 'silk/CNG.c', 'silk/PLC.c'], ['-DPART=1'], unwind=1, native_mem=True,
                unwindset=['silk_CNG_Reset:17', 'silk_ResetDecoder:3', 'silk_InitDecoder:3'], functions=['silk_ResetDecoder', 'silk_InitDecoder', 'silk_reset_decoder'],
                budget=600, replay=False, bounds='any contents of the SILK decoder super-struct (both channel states, stereo state)'))
    for ch in (1, 2):
        L.append(Ob('H2.decoder.reset_equals_fresh.celt.ch%d' % ch, 'C12_dec_parts.c', ['celt/modes.c', 'celt/celt.c'], ['-DPART=2', '-DCH=%d' % ch], unwind=1, native_mem=True,
                    unwindset=['opus_custom_decoder_ctl:43', 'opus_custom_mode_create:5'], functions=['opus_custom_decoder_ctl', 'celt_decoder_init'],
                    budget=900, replay=False, tier=('quick' if ch == 1 else 'thorough'),
                    bounds='any Fs, %d channel(s), any signal state behind the marker, any complexity / phase inversion / band range / stream channels' % ch))
        L.append(Ob('H2.decoder.reset_equals_fresh.top.ch%d' % ch, 'C12_dec_parts.c', [], ['-DPART=3', '-DCH=%d' % ch], unwind=1, native_mem=True,
                    functions=['opus_decoder_ctl'], budget=600, replay=False,
                    stubs=['celt_decoder_ctl / silk_ResetDecoder: recording stubs (their real bodies are the celt / silk obligations)'],
                    bounds='any Fs, %d channel(s), any gain and complexity, any signal state behind the marker' % ch))
    for ch in (1, 2):
        L.append(Ob('H3.encoder.celt_init_and_reset.ch%d' % ch, 'C12_enc_parts.c', ['celt/modes.c', 'celt/celt.c'], ['-DPART=2', '-DCH=%d' % ch], unwind=1, native_mem=True,
                    unwindset=['opus_custom_encoder_ctl:43', 'opus_custom_mode_create:5'], functions=['opus_custom_encoder_ctl', 'celt_encoder_init'],
                    budget=900, replay=False, tier=('quick' if ch == 1 else 'thorough'),
                    bounds='any Fs, %d channel(s), any previous memory (init) / any signal state behind the marker and any value of every setting in front of it (reset)' % ch))
        L.append(Ob('H3.encoder.top_init_and_reset.ch%d' % ch, 'C12_enc_parts.c', ['src/analysis.c', 'silk/lin2log.c'], ['-DPART=3', '-DCH=%d' % ch], unwind=1, native_mem=True,
                    functions=['opus_encoder_ctl', 'opus_encoder_init', 'tonality_analysis_reset'], budget=900, replay=False, tier=('quick' if ch == 2 else 'thorough'),
                    stubs=['silk_InitEncoder (writes arbitrary values to the status struct), celt_encoder_init, celt_encoder_ctl: recording stubs; silk/celt size queries return 64'],
                    bounds='any Fs, %d channel(s), any application, any previous memory (init) / any signal state and any value of every setting (reset)' % ch))
    return L
