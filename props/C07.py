# C07 - repacketizer, pad, unpad (DESIGN.md section 2, C07)
ASSUMPTIONS = ['extension calls are contract stubs valid for padding-free repacketizer slots (asserted at every call); extensions are C16',
               'oracle for acceptance/frames = the RFC 6716 framing model of C06']
OUTSIDE = 'more than 3 (quick) / 5 (thorough) frames per out_range call, frame payloads longer than 2 bytes (only moved), the real extension parser/generator behind the contract stubs of H5, decoded-audio equality'
UN = ['opus_packet_parse_impl:%d', 'rfc_parse:%d']

def obligations():
    L = []
    for pad in (0, 1):
        for f, ml, ol, tier, bud in ((2, 2, 12, 'quick', 600), (3, 2, 16, 'quick', 900), (4, 2, 20, 'thorough', 1500), (5, 1, 16, 'thorough', 1500)):
            L.append(Ob('H2.out_range.f%d.ml%d.pad%d' % (f, ml, pad), 'C07_out.c', ['src/repacketizer.c', 'src/opus.c'],
                        ['-DF=%d' % f, '-DML=%d' % ml, '-DOL=%d' % ol, '-DPADV=%d' % pad], unwind=1,
                        unwindset=['harness:%d' % (max(f * ml + 2, ol + 2, 49)), 'spec_size:%d' % (f + 1), 'opus_repacketizer_out_range_impl:%d' % (max(f, ol) + 2),
                                   'opus_packet_parse_impl:%d' % (f + 2)], memwords=1,
                        functions=['opus_repacketizer_out_range_impl', 'opus_packet_parse_impl'], tier=tier, budget=bud,
                        bounds='any state with 1..%d frames of 0..%d bytes, any range, any maxlen 0..%d, both framings, pad=%d' % (f, ml, ol, pad)))
    # frame lengths around the 251/252 boundary of the one-/two-byte length code (and 1275): concrete lengths and range as case selectors
    for lens, bg, en, tier in (((252, 1, 251), 0, 3, 'quick'), ((251, 0, 252), 0, 3, 'quick'), ((252, 1, 251), 1, 3, 'thorough'), ((252, 252, 252), 0, 3, 'thorough'),
                               ((251, 252, 253), 0, 2, 'thorough'), ((1275, 252, 0), 0, 3, 'thorough'), ((0, 251, 252), 1, 3, 'thorough')):
        ml = max(lens); ol = sum(lens) + 10
        L.append(Ob('H2b.out_range.lens%s.range%d_%d' % ('_'.join(map(str, lens)), bg, en), 'C07_out.c', ['src/repacketizer.c', 'src/opus.c'],
                    ['-DF=3', '-DML=%d' % ml, '-DOL=%d' % ol, '-DPADV=0', '-DLENS=%d,%d,%d' % lens, '-DBEGIN=%d' % bg, '-DEND=%d' % en], unwind=1, native_mem=True,
                    unwindset=['harness:%d' % (3 * ml + 3), 'spec_size:4', 'opus_repacketizer_out_range_impl:%d' % (ol + 2), 'opus_packet_parse_impl:5'],
                    functions=['opus_repacketizer_out_range_impl', 'opus_packet_parse_impl'], tier=tier, budget=900,
                    bounds='3 frames of exactly %s bytes, range [%d,%d) (case selectors); any frame bytes, any maxlen 0..%d, both framings, pad=0; byte equality checked at one symbolic position per frame' % (lens, bg, en, ol)))
    for code, cm, ml, tier in ((0, 0, 64, 'quick'), (1, 0, 64, 'quick'), (2, 0, 64, 'quick'), (3, 4, 24, 'quick'), (3, 8, 40, 'thorough')):
        defs = ['-DMAXLEN=%d' % ml, '-DNB0MAX=3', '-DCODE=%d' % code, '-DWITC=%d' % (1 if code == 0 else 2)] + (['-DCOUNTMAX=%d' % cm] if code == 3 else [])
        ub = max(cm + 2, 5)
        L.append(Ob('H1.cat.code%d%s.len%d' % (code, ('.le%dframes' % cm) if code == 3 else '', ml), 'C07_cat.c', ['src/opus.c', 'src/opus_decoder.c'], defs, unwind=1,
                    unwindset=['harness:%d' % max(ml + 1, 49), 'opus_packet_parse_impl:%d' % ub, 'rfc_parse:%d' % ub, 'opus_repacketizer_cat_impl:%d' % ub],
                    functions=['opus_repacketizer_cat_impl', 'opus_packet_parse_impl'], tier=tier, budget=900,
                    bounds='one cat from any valid state holding 0..3 frames; any packet of 0..%d bytes, code %d%s, both framings' % (ml, code, (', <=%d frames' % cm) if code == 3 else '')))
    for ln, xp, tier in ((3, 3, 'quick'), (4, 2, 'thorough'), (5, 3, 'thorough'), (6, 4, 'thorough')):
        for unpad_only in (0, 1):
            L.append(Ob('H3.%s.len%d.xp%d' % ('unpad' if unpad_only else 'pad_unpad', ln, xp), 'C07_pad.c', ['src/repacketizer.c', 'src/opus.c', 'src/opus_decoder.c'],
                        ['-DLEN=%d' % ln, '-DCMAX=%d' % ln, '-DXP=%d' % (0 if unpad_only else xp)] + (['-DUNPAD_ONLY'] if unpad_only else []), unwind=1,
                        unwindset=['harness:%d' % (ln + xp + 3), 'same_frames:%d' % (ln + 2), 'canon_size:%d' % (ln + 2), 'rfc_parse:%d' % (ln + 2), 'opus_packet_parse_impl:%d' % (ln + 2),
                                   'opus_repacketizer_out_range_impl:%d' % (ln + xp + 2), 'opus_repacketizer_cat_impl:%d' % (ln + 2), 'opus_packet_unpad:%d' % (ln + 2)],
                        memwords=3, functions=['opus_packet_unpad', 'opus_repacketizer_out_range_impl'] + ([] if unpad_only else ['opus_packet_pad_impl']),
                        tier=tier, budget=(900 if tier == 'quick' else 1500), witness=(ln >= 4 or not unpad_only),
                        bounds='any packet of exactly %d bytes with at most that many frames%s; new_len = len..len+%d' % (ln, '' if unpad_only else ' without a padding flag', 0 if unpad_only else xp)))
    for ln, cm, xp, tier in ((5, 2, 2, 'quick'), (6, 2, 2, 'thorough'), (7, 3, 3, 'thorough'), (8, 3, 3, 'thorough')):
        for unpad_only in (0, 1):
            L.append(Ob('H4.multistream_%s.len%d' % ('unpad' if unpad_only else 'pad_unpad', ln), 'C07_mspad.c', ['src/repacketizer.c', 'src/opus.c', 'src/opus_decoder.c'],
                        ['-DLEN=%d' % ln, '-DCMAX=%d' % cm, '-DXP=%d' % (0 if unpad_only else xp)] + (['-DUNPAD_ONLY'] if unpad_only else []), unwind=1,
                        unwindset=['harness:%d' % (ln + xp + 3), 'same_frames:%d' % (ln + 2), 'canon_size:%d' % (cm + 3), 'rfc_parse:%d' % (ln + 2), 'opus_packet_parse_impl:%d' % (ln + 2),
                                   'opus_repacketizer_out_range_impl:%d' % (ln + xp + 2), 'opus_repacketizer_cat_impl:%d' % (ln + 2), 'opus_packet_unpad:%d' % (ln + 2),
                                   'opus_multistream_packet_unpad:%d' % (ln + 2), 'opus_multistream_packet_pad:3'],
                        memwords=3, functions=['opus_multistream_packet_unpad', 'opus_repacketizer_out_range_impl'] + ([] if unpad_only else ['opus_multistream_packet_pad']),
                        tier=(tier if unpad_only else 'thorough'), budget=(900 if tier == 'quick' else 1500),
                        bounds='any 2-stream packet of exactly %d bytes, at most %d frames per stream%s; new_len = len..len+%d' % (ln, cm, '' if unpad_only else ', last stream without a padding flag', 0 if unpad_only else xp)))
    # out_range with extension-carrying padding (shared harness with C16-H3): result <= maxlen, exact refusal, frames preserved, extension area placement
    for f, ol, pat, bg, en, tier in ((3, 24, (1, 1, 1, 0), 0, 3, 'quick'), (3, 24, (0, 2, 1, 0), 1, 2, 'quick'), (4, 300, (1, 0, 2, 1), 1, 4, 'thorough')):
        L.append(Ob('H5.out_range_with_extensions.f%d.out%d.ext%s.range%d_%d' % (f, ol, ''.join(map(str, pat[:f])), bg, en), 'C16_carriage.c', ['src/repacketizer.c', 'src/opus.c'],
                    ['-DF=%d' % f, '-DOL=%d' % ol, '-DBEGIN=%d' % bg, '-DEND=%d' % en] + ['-DN%d=%d' % (i, pat[i]) for i in range(4)], unwind=1, memwords=8,
                    unwindset=['harness:%d' % (max(ol + 2, 2 * f + 2)), 'slot_of:%d' % (f + 1), 'opus_packet_extensions_parse:3', 'opus_packet_extensions_generate:%d' % (2 * f + 1),
                               'opus_repacketizer_out_range_impl:%d' % (max(f, 3) + ol // 255 + 2), 'opus_repacketizer_out_range_impl@ones_end:%d' % (ol + 2),
                               'opus_repacketizer_out_range_impl@ext_count<nb_extensions:2', 'opus_packet_parse_impl:%d' % (max(f + 2, ol // 255 + 3))],
                    functions=['opus_repacketizer_out_range_impl', 'opus_packet_parse_impl'], budget=900, tier=tier,
                    stubs=['opus_packet_extensions_count/_parse/_generate: contract stubs over an abstract extension list (coded size E any value)'],
                    bounds='%d single-frame slots of 0..1 bytes with %s extensions in their padding, range [%d,%d), any maxlen 0..%d, any coded extension size, both framings' % (f, pat[:f], bg, en, ol)))
    return L
