# C05 - buffer limit, exact CBR size, bitrate target (DESIGN.md section 2, C05); the harness is shared with C02-H3 / C11-H3 / C20-H3
import os, importlib.util
_s = importlib.util.spec_from_file_location('vt_glue', os.path.join(VERIF, 'props', '_glue.py')); _g = importlib.util.module_from_spec(_s); _s.loader.exec_module(_g)
ASSUMPTIONS = _g.GLUE_ASSUMPTIONS
OUTSIDE = ('that the real SILK/CELT frame encoders stay inside the byte budget they are handed (celt/entenc.c refusal is C08); constrained-VBR long-term average; multistream rate split; '
           'out_data_bytes above 1500 (the 1276 cap is below it)')

def obligations():
    L = []
    quick = {(4, 3), (0, 6), (3, 4), (1, 1), (2, 8), (0, 0), (4, 7), (2, 2), (3, 5), (1, 3)}
    for fsi in range(5):
        for dur in range(9):
            L.append(_g.glue_ob(Ob, 'H1.glue', fsi, dur, 'quick' if (fsi, dur) in quick else 'thorough'))
    # H2: the per-frame glue (opus_encode_frame_native) below the packetisation glue
    for mode, fsi, dur, ch, ld, maxb, tier in ((1000, 0, 2, 1, 0, 40, 'thorough'), (1002, 4, 0, 2, 1, 40, 'quick'), (1002, 3, 3, 2, 0, 24, 'thorough'), (1001, 3, 3, 2, 0, 24, 'thorough'),
                                               (1000, 2, 5, 2, 0, 80, 'thorough'), (1001, 4, 2, 1, 0, 80, 'thorough'), (1001, 3, 3, 2, 0, 80, 'thorough'), (1000, 1, 4, 1, 0, 80, 'thorough'),
                                               (1002, 2, 1, 1, 0, 80, 'thorough'), (1002, 0, 3, 2, 0, 300, 'thorough'), (1000, 3, 3, 2, 0, 300, 'thorough')):
        L.append(_g.frame_ob(Ob, 'H2.frame_glue', mode, fsi, dur, ch, ld, tier, maxb=maxb, budget=(900 if tier == 'quick' else 1500)))
    # H3: multistream per-stream budget split and packing
    for ns, nc, fsi, dur, tier in ((2, 0, 4, 3, 'quick'), (3, 1, 0, 7, 'quick'), (2, 2, 2, 0, 'thorough'), (1, 1, 3, 2, 'thorough'), (3, 3, 4, 7, 'thorough'), (3, 0, 4, 3, 'thorough'), (1, 0, 4, 3, 'thorough')):
        L.append(_g.msenc_ob(Ob, 'H3.multistream_packing', ns, nc, fsi, dur, tier))
    return L
