# C05 - buffer limit, exact CBR size, bitrate target (DESIGN.md section 2, C05); the harness is shared with C02-H3 / C11-H3 / C20-H3
import os, importlib.util
_s = importlib.util.spec_from_file_location('vt_glue', os.path.join(VERIF, 'props', '_glue.py')); _g = importlib.util.module_from_spec(_s); _s.loader.exec_module(_g)
ASSUMPTIONS = _g.GLUE_ASSUMPTIONS
OUTSIDE = ('that the real SILK/CELT frame encoders stay inside the byte budget they are handed (celt/entenc.c refusal is C08); constrained-VBR long-term average; multistream rate split; '
           'out_data_bytes above 1500 (the 1276 cap is below it)')

def obligations():
    L = []
    quick = {(4, 3), (0, 6), (3, 4), (1, 1), (2, 8), (0, 0), (4, 7), (2, 2), (3, 5), (1, 3)}
    for fsi in range(5):
        for dur in range(9):
            L.append(_g.glue_ob(Ob, 'H1.glue', fsi, dur, 'quick' if (fsi, dur) in quick else 'thorough'))
    return L
