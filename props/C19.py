# C19 - soft clipping and decoder gain (DESIGN.md section 2, C19)
ASSUMPTIONS = ['IEEE-754 binary32 semantics of CBMC float encoding (round to nearest even), no -ffast-math',
               'excursion harnesses: the excursion peak is a concrete case selector (float division by a symbolic value gives no solver verdict); every other sample is symbolic']
OUTSIDE = ('peaks other than the listed values (and +-2 saturation); frames longer than 3 samples per channel, more than 2 channels; '
           'the 10^(g/5120) decoder gain law (libm exp); gain range/readback is decided under C11')
PEAKS = ['1.0000001f', '1.25f', '1.5f', '1.9999999f', '2.0f']

def obligations():
    L = []
    L.append(Ob('H1.passthrough.n4c2', 'C19_softclip.c', ['src/opus.c'], ['-DMODE=0', '-DNMAX=4', '-DCMAX=2'], unwind=1,
                unwindset=['harness:9', 'opus_pcm_soft_clip:9'], functions=['opus_pcm_soft_clip'], budget=600,
                bounds='N 1..4, C 1..2, every sample any float in [-1,1], cleared memory'))
    L.append(Ob('H2.degenerate_args', 'C19_softclip.c', ['src/opus.c'], ['-DMODE=1'], unwind=1,
                unwindset=['harness:5', 'opus_pcm_soft_clip:5'], functions=['opus_pcm_soft_clip'], budget=300,
                bounds='C<1, N<1, NULL buffer, NULL memory (any other argument values <= 2)'))
    L.append(Ob('H3.saturated_peaks.n3c2', 'C19_softclip.c', ['src/opus.c'], ['-DMODE=3', '-DNMAX=3', '-DCMAX=2'], unwind=1,
                unwindset=['harness:7', 'opus_pcm_soft_clip:7'], functions=['opus_pcm_soft_clip'], budget=900,
                bounds='N=3, C 1..2, every sample any non-NaN float with |x|<=1 or |x|>=2 (incl. infinities): all peaks saturate to +-2; memory in {0,+-0.25}'))
    for i, pk in enumerate(PEAKS):
        L.append(Ob('H4.excursion.peak%s.n3' % pk.rstrip('f'), 'C19_softclip.c', ['src/opus.c'], ['-DMODE=2', '-DNMAX=3', '-DPEAK=' + pk], unwind=1,
                    unwindset=['harness:7', 'opus_pcm_soft_clip:7'], functions=['opus_pcm_soft_clip'], budget=900,
                    tier='quick' if pk in ('1.5f', '2.0f', '1.0000001f') else 'thorough',
                    bounds='N=3, C=2 interleaved vs two C=1 calls; channel 0: peak +-%s at any position, other samples any float within the peak; channel 1 any in-range floats; memory 0 or the coefficient of a previous 1.5 peak of either sign' % pk))
    L.append(Ob('H4.excursion.two_channels.n3', 'C19_softclip.c', ['src/opus.c'], ['-DMODE=2', '-DNMAX=3', '-DPEAK=1.5f', '-DPEAK1=1.75f'], unwind=1,
                unwindset=['harness:7', 'opus_pcm_soft_clip:7'], functions=['opus_pcm_soft_clip'], budget=1500, tier='thorough',
                bounds='as H4 with an excursion (peak 1.75 at the last sample) in channel 1 as well'))
    return L
