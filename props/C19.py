# C19 - soft clipping and decoder gain (DESIGN.md section 2, C19)
ASSUMPTIONS = ['IEEE-754 binary32 semantics of CBMC float encoding (round to nearest even), no -ffast-math',
               'excursion harnesses: the excursion peak is a concrete case selector (float division by a symbolic value gives no solver verdict); every other sample is symbolic']
OUTSIDE = ('the decoder gain (application extent and the 10^(g/5120) law): the gain harness C01_frame.c -DGAIN gave no verdict; excursions whose samples are not saturated at +-2 (harness mode 2 - isolated peak of a concrete value at a concrete position, every other sample symbolic - gave no verdict in 900 s per case and is not registered); frames longer than 3 samples per channel, more than 2 channels; '
           'the 10^(g/5120) decoder gain law (libm exp); gain range/readback is decided under C11')
PEAKS = ['1.0000001f', '1.25f', '1.5f', '1.9999999f', '2.0f']

def obligations():
    L = []
    def us(n, c):
        return ['harness:%d' % (n * c + 1), 'opus_pcm_soft_clip:%d' % (n * c + 1)]
    for (n, c, tier) in ((1, 1, 'quick'), (2, 1, 'quick'), (3, 1, 'quick'), (2, 2, 'quick'), (3, 2, 'thorough'), (4, 1, 'thorough'), (4, 2, 'thorough')):
        L.append(Ob('H1.passthrough.n%dc%d' % (n, c), 'C19_softclip.c', ['src/opus.c'], ['-DMODE=0', '-DNMAX=%d' % n, '-DCMAX=%d' % c], unwind=1, tier=tier,
                    unwindset=us(n, c), functions=['opus_pcm_soft_clip'], budget=900,
                    bounds='N=%d, C=%d (case selectors), every sample any float in [-1,1] (incl. +-0, denormals), cleared memory' % (n, c)))
    L.append(Ob('H2.degenerate_args', 'C19_softclip.c', ['src/opus.c'], ['-DMODE=1'], unwind=1,
                unwindset=['harness:5'], functions=['opus_pcm_soft_clip'], budget=300,
                bounds='C<1 (any int), N<1 (any int), NULL buffer, NULL memory; buffer/memory contents any floats (the loops of the function are not unwound: with unwinding assertions on, reaching one would fail)'))
    for (n, c, tier) in ((1, 1, 'quick'), (2, 1, 'thorough'), (2, 2, 'thorough'), (3, 1, 'thorough')):
        L.append(Ob('H3.saturated_peaks.n%dc%d' % (n, c), 'C19_softclip.c', ['src/opus.c'], ['-DMODE=3', '-DNMAX=%d' % n, '-DCMAX=%d' % c], unwind=1, tier=tier,
                    unwindset=us(n, c), functions=['opus_pcm_soft_clip'], budget=900,
                    bounds='N=%d, C=%d, every sample any non-NaN float with |x|<=1 or |x|>=2 (incl. infinities): all peaks saturate to +-2; memory in {0,+-0.25}' % (n, c)))
    # N>=2 gave no verdict in 600-900 s (symbolic coefficient times symbolic samples): thorough tier only, with a larger budget; not seen to finish
    for (n, c, tier) in ((1, 1, 'quick'), (2, 1, 'thorough'), (2, 2, 'thorough'), (3, 1, 'thorough')):
        L.append(Ob('H4.memory_cleared_in_range.n%dc%d' % (n, c), 'C19_softclip.c', ['src/opus.c'], ['-DMODE=4', '-DNMAX=%d' % n, '-DCMAX=%d' % c], unwind=1, tier=tier,
                    unwindset=us(n, c), functions=['opus_pcm_soft_clip'], budget=(600 if tier == 'quick' else 3000),
                    bounds='N=%d, C=%d, every sample any float in [-1,1], memory any coefficient |a|<=0.2500001 a previous call can leave (continuation of the previous curve; division-free path)' % (n, c)))
    # H5 (decoder gain applied exactly once, C01_frame.c -DGAIN) gave no verdict in 1500 s and is not registered (DESIGN 7.2a)
    return L
