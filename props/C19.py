# C19 - soft clipping and decoder gain (DESIGN.md section 2, C19)
ASSUMPTIONS = ['IEEE-754 binary32 semantics of CBMC float encoding (round to nearest even), no -ffast-math',
               'excursion harnesses: the excursion peak is a concrete case selector (float division by a symbolic value gives no solver verdict); every other sample is symbolic']
OUTSIDE = ('excursions whose samples are not saturated at +-2 (harness mode 2 - isolated peak of a concrete value at a concrete position, every other sample symbolic - gave no verdict in 900 s per case and is not registered); frames longer than 3 samples per channel, more than 2 channels; '
           'the 10^(g/5120) decoder gain law (libm exp); gain range/readback is decided under C11')
PEAKS = ['1.0000001f', '1.25f', '1.5f', '1.9999999f', '2.0f']

def obligations():
    L = []
    def us(n, c):
        return ['harness:%d' % (n * c + 1), 'opus_pcm_soft_clip:%d' % (n * c + 1)]
    for (n, c, tier) in ((1, 1, 'quick'), (2, 1, 'quick'), (3, 1, 'quick'), (2, 2, 'quick'), (3, 2, 'thorough'), (4, 1, 'thorough'), (4, 2, 'thorough')):
        L.append(Ob('H1.passthrough.n%dc%d' % (n, c), 'C19_softclip.c', ['src/opus.c'], ['-DMODE=0', '-DNMAX=%d' % n, '-DCMAX=%d' % c], unwind=1, tier=tier,
                    unwindset=us(n, c), functions=['opus_pcm_soft_clip'], budget=900,
                    bounds='N=%d, C=%d (case selectors), every sample any float in [-1,1] (incl. +-0, denormals), cleared memory' % (n, c)))
    L.append(Ob('H2.degenerate_args', 'C19_softclip.c', ['src/opus.c'], ['-DMODE=1'], unwind=1,
                unwindset=['harness:5'], functions=['opus_pcm_soft_clip'], budget=300,
                bounds='C<1 (any int), N<1 (any int), NULL buffer, NULL memory; buffer/memory contents any floats (the loops of the function are not unwound: with unwinding assertions on, reaching one would fail)'))
    for (n, c, tier) in ((1, 1, 'quick'), (2, 1, 'quick'), (2, 2, 'thorough'), (3, 1, 'thorough')):
        L.append(Ob('H3.saturated_peaks.n%dc%d' % (n, c), 'C19_softclip.c', ['src/opus.c'], ['-DMODE=3', '-DNMAX=%d' % n, '-DCMAX=%d' % c], unwind=1, tier=tier,
                    unwindset=us(n, c), functions=['opus_pcm_soft_clip'], budget=900,
                    bounds='N=%d, C=%d, every sample any non-NaN float with |x|<=1 or |x|>=2 (incl. infinities): all peaks saturate to +-2; memory in {0,+-0.25}' % (n, c)))
    for (n, c, tier) in ((1, 1, 'quick'), (2, 2, 'quick'), (3, 1, 'quick'), (3, 2, 'thorough'), (4, 1, 'thorough')):
        L.append(Ob('H4.memory_cleared_in_range.n%dc%d' % (n, c), 'C19_softclip.c', ['src/opus.c'], ['-DMODE=4', '-DNMAX=%d' % n, '-DCMAX=%d' % c], unwind=1, tier=tier,
                    unwindset=us(n, c), functions=['opus_pcm_soft_clip'], budget=900,
                    bounds='N=%d, C=%d, every sample any float in [-1,1], memory any coefficient |a|<=0.2500001 a previous call can leave (continuation of the previous curve; division-free path)' % (n, c)))
    # H5: decoder gain applied exactly once to the whole frame (decoder frame glue of C01-H3 with synth stubs)
    for fsi, fs, tier in ((0, 8000, 'quick'), (2, 16000, 'thorough')):
        F20 = fs // 50
        L.append(Ob('H5.decoder_gain_applied_once.fs%d' % fs, 'C01_frame.c', ['celt/entdec.c', 'celt/entcode.c'], ['-DFSI=%d' % fsi, '-DPL=6', '-DGAIN'], unwind=1,
                    replace=['smooth_fade_REAL:stub_fade'], memwords=F20 // 2 + 2,
                    unwindset=['harness:7', 'opus_decode_frame:%d' % (F20 + 2), 'opus_decode_frame@decoded_samples < frame_size:5', 'opus_decode_frame@audiosize > 0:8',
                               'opus_decode_frame@c<st->channels:3', 'opus_decode_frame@i<F2_5:%d' % (F20 // 8 + 1), 'rec:opus_decode_frame:3', 'ec_dec_init:5', 'ec_dec_normalize:5', 'ec_dec_uint:3', 'ec_dec_bits:5'],
                    functions=['opus_decode_frame'], budget=1500, tier=tier, replay=False, mem_gb=16,
                    stubs=['silk_Decode, celt_decode_with_ec(_dred): write 0.5 at both ends of the region they produce', 'smooth_fade: output starts at its first input and ends at its second',
                           'exp(): returns an arbitrary factor G in [2^-7, 2^7] (the 10^(g/5120) law itself is libm and not claimed)', 'celt_decoder_ctl, silk_ResetDecoder: as in C01-H3'],
                    bounds='Fs=%d; any mode / previous mode / redundancy history, 1-2 channels, frames and requests up to 10 ms, any packet of 0..6 bytes or NULL, any non-zero decode_gain' % fs))
    return L
