# C13 - 16-bit / 24-bit / float views (DESIGN.md section 2, C13)
ASSUMPTIONS = ['float2int is CVTSS2SI in this build: modelled by /verif/shim/xmmintrin.h (round-to-nearest-even, 0x80000000 indefinite)',
               'opus_encode_native / opus_decode_native replaced by a recorder / synth stub: only the entry-point conversions are the subject']
OUTSIDE = 'soft-clip excursions (|x|>1) in the 16-bit decoder path; SIMD celt_float2int16; the multistream/projection copies (see C10)'

def obligations():
    L = [Ob('H1.scalar_formats', 'C13_scalar.c', [], [], unwind=1, inc=['shim'], functions=[], budget=300, bounds='every int16 value')]
    for ch, dm in ((1, 1), (2, 0), (2, 1)):
      L.append(Ob('H1.encoder_entry_points.ch%d%s' % (ch, '' if dm else '.pcm_only'), 'C13_enc.c', [], ['-DCH=%d' % ch] + ([] if dm else ['-DNODM']), unwind=1,
                tier=('thorough' if (ch, dm) == (2, 1) else 'quick'), inc=['shim'], replace=['opus_encode_native_REAL:rec_native'],
                unwindset=['harness:41', 'rec_native:41', 'downmix_int:21', 'downmix_int24:21', 'downmix_float:21', 'opus_encode:41', 'opus_encode24:41', 'opus_encode_float:41'],
                functions=['opus_encode', 'opus_encode24', 'opus_encode_float'], budget=(1500 if (ch, dm) == (2, 1) else 600),
                bounds='any int16 frame of 20 samples (2.5 ms at 8 kHz), channel count = case selector, encoder lsb_depth 8..16',
                stubs=['opus_encode_native: recorder (goto-instrument --replace-calls)']))
    for ch in (1, 2):
      L.append(Ob('H2.decoder_exit_points.ch%d' % ch, 'C13_dec.c', ['celt/mathops.c'], ['-DCH=%d' % ch], unwind=1, inc=['shim'], replace=['opus_decode_native_REAL:syn_native'],
                unwindset=['harness:8', 'syn_native:7', 'opus_decode:7', 'opus_decode24:7', 'opus_decode_float:7', 'celt_float2int16_c:7'],
                functions=['opus_decode', 'opus_decode24', 'celt_float2int16_c'], budget=600,
                bounds='any float samples in [-1,1], 1..3 samples x 1..2 channels, any frame_size in -1..3, any stub result incl. errors',
                stubs=['opus_decode_native: synth stub returning the same samples to all three wrappers']))
    for c in (1, 2, 3):
      for c2 in range(-2, c):
        L.append(Ob('H1.downmix_trio.c%d.second%s' % (c, {-2: 'all', -1: 'none'}.get(c2, str(c2))), 'C13_downmix.c', [], ['-DNCH=%d' % c, '-DC2SEL=%d' % c2], unwind=1, inc=['shim'], witness=False,
                unwindset=['harness:%d' % (2 * c + 1), 'downmix_int:4', 'downmix_int24:4', 'downmix_float:4'], functions=['downmix_int', 'downmix_int24', 'downmix_float'], budget=600,
                tier=('quick' if c <= 2 else 'thorough'),
                bounds='%d interleaved channel(s), any int16 samples, one sample at offset 0..1, any first channel, second channel selector %d (-2 all others, -1 none)' % (c, c2)))
    for ch in (1, 2):
      L.append(Ob('H2.decoder_exit_points.with_packet.ch%d' % ch, 'C13_dec.c', ['celt/mathops.c', 'src/opus.c'], ['-DCH=%d' % ch, '-DWITHPKT'], unwind=1, inc=['shim'], replace=['opus_decode_native_REAL:syn_native'],
                unwindset=['harness:8', 'syn_native:7', 'opus_decode:7', 'opus_decode24:7', 'opus_decode_float:7', 'celt_float2int16_c:7', 'opus_packet_parse_impl:4'],
                functions=['opus_decode', 'opus_decode24', 'celt_float2int16_c'], budget=600,
                bounds='as H2 plus any 2-byte packet (NULL or not), len 0..2, decode_fec 0/1: the request handed to the native decoder is compared across the three entry points',
                stubs=['opus_decode_native: synth stub recording frame_size']))
    return L
