# C01 - decoding is total and memory-safe (DESIGN.md section 2, C01)
ASSUMPTIONS = [
 'float build macros of the pinned cmake build, C (non-RTCD) code paths',
 'malloc assumed non-NULL; caller buffers are exact-size heap objects',
]
OUTSIDE = ('memory safety inside silk_decode_core, PLC/CNG synthesis, quant_all_bands/PVQ decode, MDCT, resamplers; finiteness of samples; '
           'packets beyond the per-harness length bounds; call histories beyond "any state satisfying the struct invariant"')
INS_SRC = ['src/opus.c', 'src/opus_decoder.c']
INS_FUN = ['opus_packet_parse_impl', 'opus_packet_get_nb_frames', 'opus_packet_get_nb_samples', 'opus_packet_has_lbrr',
           'opus_packet_get_samples_per_frame', 'opus_packet_get_bandwidth']

FSN = [8000, 12000, 16000, 24000, 48000]
def native_ob(name, fsi, sd, tier, extra):
    return Ob(name, 'C01_native.c', ['src/opus.c'], ['-DFSI=%d' % fsi, '-DSD=%d' % sd, '-DPL=8', '-DMAXC=4'] + extra, unwind=1,
              replace=['opus_decode_frame_REAL:stub_decode_frame'],
              unwindset=['harness:9', 'opus_decode_native:2', 'opus_decode_native@pcm_count < frame_size:50', 'opus_decode_native@i<count:6', 'rec:opus_decode_native:3', 'opus_packet_parse_impl:9', 'rfc_parse:9'],
              functions=['opus_decode_native', 'opus_packet_parse_impl'], budget=3000, tier=tier, replay=False, mem_gb=16,
              stubs=['opus_decode_frame: synth stub (asserts its output region lies inside the caller buffer, returns the durations the real function may return, logs calls)'],
              bounds='Fs=%d, %s framing; any decoder state satisfying validate_opus_decoder; any 8-byte packet with <= 4 frames, any len -1..8, NULL or not; any frame_size 1..120 ms; decode_fec -1..2' % (FSN[fsi], 'self-delimited' if sd else 'standard'))

def obligations():
    L = []
    for code in (0, 1, 2):
        L.append(Ob('H1.inspect.code%d.len12' % code, 'C01_inspect.c', INS_SRC, ['-DMAXLEN=12', '-DCODE=%d' % code], unwind=1,
                    unwindset=['harness:13', 'harness.2:49', 'opus_packet_parse_impl:4'], functions=INS_FUN, budget=600,
                    bounds='any bytes in an exact-size object, len 0..12, code %d, both framings, any Fs' % code))
    L.append(Ob('H1.inspect.code3.cbr.len12', 'C01_inspect.c', INS_SRC, ['-DMAXLEN=12', '-DCODE=3', '-DVBRBIT=0'], unwind=1,
                unwindset=['harness:13', 'harness.2:49', 'opus_packet_parse_impl:49'], functions=INS_FUN, budget=600,
                bounds='any bytes in an exact-size object, len 0..12, code 3 CBR any count byte, both framings'))
    L.append(Ob('H1.inspect.code3.vbr.le5frames.len12', 'C01_inspect.c', INS_SRC, ['-DMAXLEN=12', '-DCODE=3', '-DVBRBIT=1', '-DCOUNTMAX=5'], unwind=1,
                unwindset=['harness:13', 'harness.2:49', 'opus_packet_parse_impl:7'], functions=INS_FUN, budget=600,
                bounds='any bytes in an exact-size object, len 0..12, code 3 VBR with <=5 frames, both framings'))
    for fsi, sd, tier in ((0, 0, 'thorough'), (4, 0, 'thorough'), (2, 1, 'thorough'), (1, 0, 'thorough'), (3, 0, 'thorough'), (0, 1, 'thorough'), (4, 1, 'thorough')):
        L.append(native_ob('H2.native_front_end.fs%d.sd%d' % (fsi, sd), fsi, sd, tier, []))
    # quick-tier instance of H2 with smaller bounds (4-byte packets, <= 2 frames, requests up to 40 ms)
    L.append(Ob('H2.native_front_end.small.fs8000.sd0', 'C01_native.c', ['src/opus.c'], ['-DFSI=0', '-DSD=0', '-DPL=4', '-DMAXC=2', '-DMAXMS=40'], unwind=1,
                replace=['opus_decode_frame_REAL:stub_decode_frame'],
                unwindset=['harness:9', 'opus_decode_native:2', 'opus_decode_native@pcm_count < frame_size:18', 'opus_decode_native@i<count:4', 'rec:opus_decode_native:3', 'opus_packet_parse_impl:9', 'rfc_parse:9'],
                functions=['opus_decode_native', 'opus_packet_parse_impl'], budget=700, tier='quick', replay=False, mem_gb=16,
                stubs=['opus_decode_frame: synth stub (asserts its output region lies inside the caller buffer, returns the durations the real function may return, logs calls)'],
                bounds='Fs=8000, standard framing; any decoder state satisfying validate_opus_decoder; any 4-byte packet with <= 2 frames, any len -1..4, NULL or not; any frame_size 1..40 ms; decode_fec -1..2'))
    # the concealment-only variant did not leave symbolic execution within 600 s either; both variants are thorough-tier only
    for fsi, tier, plc in ((0, 'thorough', 1), (0, 'thorough', 0), (4, 'thorough', 0), (2, 'thorough', 0)):
        F20 = FSN[fsi] // 50
        L.append(Ob('H3.frame_glue%s.fs%d' % ('.concealment_only' if plc else '', FSN[fsi]), 'C01_frame.c', ['celt/entdec.c', 'celt/entcode.c'], ['-DFSI=%d' % fsi, '-DPL=6'] + (['-DPLCONLY', '-DCHSEL=1'] if plc else []), unwind=1,
                    replace=['smooth_fade_REAL:stub_fade'], memwords=F20 // 2 + 2,
                    unwindset=['harness:7', 'opus_decode_frame:%d' % ((F20 // 2 + 6) if plc else (F20 * 2 + 2)), 'opus_decode_frame@decoded_samples < frame_size:5', 'opus_decode_frame@audiosize > 0:8',
                               'opus_decode_frame@c<st->channels:3', 'opus_decode_frame@i<F2_5:%d' % (F20 // 8 + 1), 'rec:opus_decode_frame:3', 'ec_dec_init:5', 'ec_dec_normalize:5', 'ec_dec_uint:3', 'ec_dec_bits:5'],
                    functions=['opus_decode_frame', 'ec_dec_init'], budget=3000, tier=tier, replay=False, mem_gb=16,
                    stubs=['silk_Decode, celt_decode_with_ec(_dred), smooth_fade: synth stubs touching exactly the region their contract lets them write', 'celt_decoder_ctl: argument-checking stub', 'silk_ResetDecoder: no-op'],
                    bounds=('concealment requests only (NULL packet); ' if plc else '') + 'Fs=%d; any (mode, bandwidth, frame duration) a TOC can announce, any previous mode / redundancy, 1-2 channels; any packet of 0..6 bytes or NULL; any frame_size 0..120 ms + 3 samples (concealment-only variant: 0..10 ms + 3 samples) in an exact-size buffer; decode_fec 0/1; decode_gain 0' % FSN[fsi]))
    return L
