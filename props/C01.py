# C01 - decoding is total and memory-safe (DESIGN.md section 2, C01)
ASSUMPTIONS = [
 'float build macros of the pinned cmake build, C (non-RTCD) code paths',
 'malloc assumed non-NULL; caller buffers are exact-size heap objects',
]
OUTSIDE = ('memory safety inside silk_decode_core, PLC/CNG synthesis, quant_all_bands/PVQ decode, MDCT, resamplers; finiteness of samples; '
           'packets beyond the per-harness length bounds; call histories beyond "any state satisfying the struct invariant"')
INS_SRC = ['src/opus.c', 'src/opus_decoder.c']
INS_FUN = ['opus_packet_parse_impl', 'opus_packet_get_nb_frames', 'opus_packet_get_nb_samples', 'opus_packet_has_lbrr',
           'opus_packet_get_samples_per_frame', 'opus_packet_get_bandwidth']

def obligations():
    L = []
    for code in (0, 1, 2):
        L.append(Ob('H1.inspect.code%d.len12' % code, 'C01_inspect.c', INS_SRC, ['-DMAXLEN=12', '-DCODE=%d' % code], unwind=1,
                    unwindset=['harness:13', 'harness.2:49', 'opus_packet_parse_impl:4'], functions=INS_FUN, budget=600,
                    bounds='any bytes in an exact-size object, len 0..12, code %d, both framings, any Fs' % code))
    L.append(Ob('H1.inspect.code3.cbr.len12', 'C01_inspect.c', INS_SRC, ['-DMAXLEN=12', '-DCODE=3', '-DVBRBIT=0'], unwind=1,
                unwindset=['harness:13', 'harness.2:49', 'opus_packet_parse_impl:49'], functions=INS_FUN, budget=600,
                bounds='any bytes in an exact-size object, len 0..12, code 3 CBR any count byte, both framings'))
    L.append(Ob('H1.inspect.code3.vbr.le5frames.len12', 'C01_inspect.c', INS_SRC, ['-DMAXLEN=12', '-DCODE=3', '-DVBRBIT=1', '-DCOUNTMAX=5'], unwind=1,
                unwindset=['harness:13', 'harness.2:49', 'opus_packet_parse_impl:7'], functions=INS_FUN, budget=600,
                bounds='any bytes in an exact-size object, len 0..12, code 3 VBR with <=5 frames, both framings'))
    return L
