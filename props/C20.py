# C20 - DTX (DESIGN.md section 2, C20)
ASSUMPTIONS = ['activity decisions (analysis MLP, SILK VAD level) are arbitrary inputs: their relation to the signal is float DSP and not claimed']
OUTSIDE = 'that digital silence makes the analysis report inactivity; decoder output energy during the gap; packet shape beyond the glue-level check'

import os, importlib.util
_s = importlib.util.spec_from_file_location('vt_glue', os.path.join(VERIF, 'props', '_glue.py')); _g = importlib.util.module_from_spec(_s); _s.loader.exec_module(_g)
def obligations():
    L = []
    for steps in (1, 3):
        L.append(Ob('H1.decide_dtx_mode.steps%d' % steps, 'C20_dtx.c', [], ['-DSTEPS=%d' % steps], unwind=1, unwindset=['harness:%d' % (steps + 1)],
                    functions=['decide_dtx_mode'], budget=300,
                    bounds='%d consecutive call(s) from ANY counter/run state satisfying the invariant J, any legal frame duration, any activity bits' % steps,
                    assumptions=['pre-state: invariant J (0<=counter<=600 ms; a running DTX run started within one frame of the 200 ms mark)']))
    L.append(Ob('H2.silk_vad_dtx', 'C20_silk_vad.c', ['silk/float/encode_frame_FLP.c'], [], unwind=1, unwindset=['harness:4'],
                functions=['silk_encode_do_VAD_FLP'], budget=300,
                bounds='1..3 frames of one packet from any noSpeechCounter in [0,30], DTX on/off, any SILK activity level 0..255, any Opus activity decision',
                stubs=['silk_VAD_GetSA_Q8: any activity level']))
    for fsi, dur in [(4, 3), (2, 4), (0, 8)]:
        L.append(_g.glue_ob(Ob, 'H3.glue_dtx_shape', fsi, dur, 'quick'))
    for fsi, dur in [(f, d) for f in range(5) for d in range(9) if (f, d) not in [(4, 3), (2, 4), (0, 8)]][::4]:
        L.append(_g.glue_ob(Ob, 'H3.glue_dtx_shape', fsi, dur, 'thorough'))
    # H4: the DTX decision at its call site in the per-frame glue (C05-H2 harness): counter advanced by the frame duration in Q1 ms, DTX packet = TOC alone
    for mode, fsi, dur, ch, ld, maxb, tier in ((1002, 4, 0, 2, 1, 40, 'quick'), (1000, 0, 2, 1, 0, 40, 'thorough'), (1002, 2, 1, 1, 0, 80, 'thorough'), (1001, 3, 3, 2, 0, 24, 'thorough')):
        L.append(_g.frame_ob(Ob, 'H4.frame_glue_dtx', mode, fsi, dur, ch, ld, tier, maxb=maxb, budget=(900 if tier == 'quick' else 1500)))
    return L
