# C10 - multistream / projection (DESIGN.md section 2, C10)
import re, os
ASSUMPTIONS = ['per-stream decoders are logging synth stubs in the routing harness; sub-codec output is not modelled',
               'matrix identity tolerance EPS = n * 2^17 in Q30 (int16 quantisation of the cells)']
OUTSIDE = 'more than 4 channels / 3 streams in the routing harness; real sub-codec output; surround encoder layout tables (H3) were not built'
DIM = {'foa': 6, 'soa': 11, 'toa': 18, 'fourthoa': 27, 'fifthoa': 38}

def gen_matrix(order):
    def g(d):
        txt = open(os.path.join(REPO, 'src', 'mapping_matrix.c')).read()
        m = re.search(r'mapping_matrix_%s_demixing\s*=\s*\{\s*(\d+)\s*,\s*(\d+)\s*,\s*(-?\d+)\s*\}' % order, txt)
        gain = int(m.group(3)) if m else 0
        n = DIM[order]
        diag = int(round((1 << 30) * 10 ** (-gain / 5120.0)))
        open(os.path.join(d, 'matrix_expect.h'), 'w').write(
            '#define NDIM %d\n#define EXPECT_GAIN %d\n#define EXPECT_DIAG %dLL\n#define EPS %dLL\n' % (n, gain, diag, n * (1 << 17)))
    return g

import os as _os, importlib.util as _ilu
_s2 = _ilu.spec_from_file_location('vt_glue2', _os.path.join(VERIF, 'props', '_glue.py')); _g2 = _ilu.module_from_spec(_s2); _s2.loader.exec_module(_g2)
def obligations():
    L = []
    L.append(Ob('H2.layout.nch8', 'C10_layout.c', ['src/opus_multistream.c', 'celt/mathops.c'], ['-DNCH=8'], unwind=1,
                unwindset=['harness:9', 'harness@for\\(int t:5', 'harness@for\\(int k=1:16', 'validate_layout:9', 'get_left_channel:9', 'get_right_channel:9', 'get_mono_channel:9',
                           'validate_encoder_layout:6', 'isqrt32:18'], memwords=70,
                functions=['validate_layout', 'get_left_channel', 'get_mono_channel', 'validate_encoder_layout', 'validate_ambisonics'], budget=600,
                bounds='any layout with 0..8 channels, streams/coupled 0..256, any mapping bytes; any ambisonics channel count -3..300'))
    for o in ('foa', 'soa', 'toa', 'fourthoa', 'fifthoa'):
        L.append(Ob('H5.matrix_identity.' + o, 'C10_matrix.c', ['src/mapping_matrix.c'], ['-DORD=' + o], unwind=1, unwindset=['harness:%d' % (DIM[o] + 1)],
                    gen=gen_matrix(o), functions=[], budget=900, tier='quick' if DIM[o] <= 18 else 'thorough',
                    bounds='order %s (%dx%d): every (row, column) pair symbolic' % (o, DIM[o], DIM[o])))
    L.append(Ob('H5b.multiply_channel_out_short', 'C10_mix_short.c', ['src/mapping_matrix.c'], [], unwind=1, inc=['shim'],
                unwindset=['harness:10', 'mapping_matrix_multiply_channel_out_short:4'], functions=['mapping_matrix_multiply_channel_out_short'], budget=600,
                bounds='any matrix of <=3x3 int16 cells, any input sample in [-4,4], any previous 16-bit output, one sample'))
    for nc_, fmt, tier in ((2, 0, 'quick'), (3, 0, 'quick'), (2, 2, 'quick'), (3, 2, 'thorough'), (3, 1, 'thorough'), (4, 0, 'thorough')):
        L.append(Ob('H1.routing.c%d.%s' % (nc_, ('float', 'int24', 'int16')[fmt]), 'C10_route.c', ['src/opus_multistream.c', 'celt/mathops.c'], ['-DNC=%d' % nc_, '-DFMT=%d' % fmt, '-DMAXS=2'],
                    unwind=1, inc=['shim'], unwindset=['harness:9', 'harness@for\\(int c:%d' % (nc_ + 1), 'harness@for\\(int s:3', 'opus_decode_native:3', 'opus_multistream_decode_native:%d' % (nc_ + 2),
                               'opus_multistream_packet_validate:3', 'validate_layout:%d' % (nc_ + 1), 'get_left_channel:%d' % (nc_ + 1), 'get_right_channel:%d' % (nc_ + 1), 'get_mono_channel:%d' % (nc_ + 1),
                               'opus_copy_channel_out_float:2', 'opus_copy_channel_out_short:2', 'opus_copy_channel_out_int24:2', 'celt_float2int16_c:2'],
                    functions=['opus_multistream_decode_native'], tier=tier, budget=900, replay=False,
                    bounds='%d output channels (selector), 1..2 streams, any coupled count, any mapping (duplicates, 255), 1 sample, any packet bytes/len 0..8' % nc_,
                    stubs=['opus_decode_native: logging synth stub', 'opus_packet_parse_impl: any split', 'opus_decoder_get_size/init/ctl: trivial']))
    L.append(Ob('H6.projection_matrix_export_ctl', 'C10_proj_ctl.c', ['src/mapping_matrix.c'], ['-DMAXR=4'], unwind=1,
                unwindset=['harness:21', 'opus_projection_encoder_ctl:4'], functions=['opus_projection_encoder_ctl'], budget=600, replay=False,
                stubs=['opus_multistream_encoder_ctl_va_list: not reached by the three matrix ctls'],
                bounds='constructed projection encoder state: 1..3 channels, streams+coupled <= 3, stored demixing matrix of any size up to 4x4 with rows >= channels, any cells, any requested size'))
    # the multistream encoder advances by the size opus_repacketizer_out_range_impl returns for each self-delimited stream: the C07-H2b harness
    # (frame lengths on both sides of the 251/252 boundary) is registered here too
    for lens, bg, en, tier in (((251, 0, 252), 0, 3, 'quick'), ((252, 1, 251), 0, 3, 'thorough')):
        ml = max(lens); ol = sum(lens) + 10
        L.append(Ob('H4b.self_delimited_stream_size.lens%s.range%d_%d' % ('_'.join(map(str, lens)), bg, en), 'C07_out.c', ['src/repacketizer.c', 'src/opus.c'],
                    ['-DF=3', '-DML=%d' % ml, '-DOL=%d' % ol, '-DPADV=0', '-DLENS=%d,%d,%d' % lens, '-DBEGIN=%d' % bg, '-DEND=%d' % en], unwind=1, native_mem=True,
                    unwindset=['harness:%d' % (3 * ml + 3), 'spec_size:4', 'opus_repacketizer_out_range_impl:%d' % (ol + 2), 'opus_packet_parse_impl:5'],
                    functions=['opus_repacketizer_out_range_impl', 'opus_packet_parse_impl'], tier=tier, budget=900,
                    bounds='3 frames of exactly %s bytes, range [%d,%d) (case selectors); any frame bytes, any maxlen 0..%d, both framings, pad=0' % (lens, bg, en, ol)))
    for ns, nc, fsi, dur, tier in ((2, 1, 4, 3, 'quick'), (3, 0, 2, 2, 'thorough'), (2, 2, 0, 7, 'thorough')):
        L.append(_g2.msenc_ob(Ob, 'H4.encoder_packing', ns, nc, fsi, dur, tier))
    return L
