# C10 - multistream / projection (DESIGN.md section 2, C10)
import re, os
ASSUMPTIONS = ['per-stream decoders are logging synth stubs in the routing harness; sub-codec output is not modelled',
               'matrix identity tolerance EPS = n * 2^17 in Q30 (int16 quantisation of the cells)']
OUTSIDE = 'more than 4 channels / 3 streams in the routing harness; real sub-codec output; surround encoder layout tables (H3) and encoder-side concatenation (H4) were not built in this round'
DIM = {'foa': 6, 'soa': 11, 'toa': 18, 'fourthoa': 27, 'fifthoa': 38}

def gen_matrix(order):
    def g(d):
        txt = open(os.path.join(REPO, 'src', 'mapping_matrix.c')).read()
        m = re.search(r'mapping_matrix_%s_demixing\s*=\s*\{\s*(\d+)\s*,\s*(\d+)\s*,\s*(-?\d+)\s*\}' % order, txt)
        gain = int(m.group(3)) if m else 0
        n = DIM[order]
        diag = int(round((1 << 30) * 10 ** (-gain / 5120.0)))
        open(os.path.join(d, 'matrix_expect.h'), 'w').write(
            '#define NDIM %d\n#define EXPECT_GAIN %d\n#define EXPECT_DIAG %dLL\n#define EPS %dLL\n' % (n, gain, diag, n * (1 << 17)))
    return g

def obligations():
    L = []
    L.append(Ob('H2.layout.nch8', 'C10_layout.c', ['src/opus_multistream.c', 'celt/mathops.c'], ['-DNCH=8'], unwind=1,
                unwindset=['harness:9', 'harness@for\\(int t:5', 'harness@for\\(int k=1:16', 'validate_layout:9', 'get_left_channel:9', 'get_right_channel:9', 'get_mono_channel:9',
                           'validate_encoder_layout:6', 'isqrt32:18'], memwords=70,
                functions=['validate_layout', 'get_left_channel', 'get_mono_channel', 'validate_encoder_layout', 'validate_ambisonics'], budget=600,
                bounds='any layout with 0..8 channels, streams/coupled 0..256, any mapping bytes; any ambisonics channel count -3..300'))
    for o in ('foa', 'soa', 'toa', 'fourthoa', 'fifthoa'):
        L.append(Ob('H5.matrix_identity.' + o, 'C10_matrix.c', ['src/mapping_matrix.c'], ['-DORD=' + o], unwind=1, unwindset=['harness:%d' % (DIM[o] + 1)],
                    gen=gen_matrix(o), functions=[], budget=900, tier='quick' if DIM[o] <= 18 else 'thorough',
                    bounds='order %s (%dx%d): every (row, column) pair symbolic' % (o, DIM[o], DIM[o])))
    L.append(Ob('H5b.multiply_channel_out_short', 'C10_mix_short.c', ['src/mapping_matrix.c'], [], unwind=1, inc=['shim'],
                unwindset=['harness:10', 'mapping_matrix_multiply_channel_out_short:4'], functions=['mapping_matrix_multiply_channel_out_short'], budget=600,
                bounds='any matrix of <=3x3 int16 cells, any input sample in [-4,4], any previous 16-bit output, one sample'))
    for nc_, fmt, tier in ((2, 0, 'quick'), (3, 0, 'quick'), (2, 2, 'quick'), (3, 2, 'thorough'), (3, 1, 'thorough'), (4, 0, 'thorough')):
        L.append(Ob('H1.routing.c%d.%s' % (nc_, ('float', 'int24', 'int16')[fmt]), 'C10_route.c', ['src/opus_multistream.c', 'celt/mathops.c'], ['-DNC=%d' % nc_, '-DFMT=%d' % fmt, '-DMAXS=2'],
                    unwind=1, inc=['shim'], unwindset=['harness:9', 'harness@for\\(int c:%d' % (nc_ + 1), 'harness@for\\(int s:3', 'opus_decode_native:3', 'opus_multistream_decode_native:%d' % (nc_ + 2),
                               'opus_multistream_packet_validate:3', 'validate_layout:%d' % (nc_ + 1), 'get_left_channel:%d' % (nc_ + 1), 'get_right_channel:%d' % (nc_ + 1), 'get_mono_channel:%d' % (nc_ + 1),
                               'opus_copy_channel_out_float:2', 'opus_copy_channel_out_short:2', 'opus_copy_channel_out_int24:2', 'celt_float2int16_c:2'],
                    functions=['opus_multistream_decode_native'], tier=tier, budget=900, replay=False,
                    bounds='%d output channels (selector), 1..2 streams, any coupled count, any mapping (duplicates, 255), 1 sample, any packet bytes/len 0..8' % nc_,
                    stubs=['opus_decode_native: logging synth stub', 'opus_packet_parse_impl: any split', 'opus_decoder_get_size/init/ctl: trivial']))
    L.append(Ob('H6.projection_matrix_export_ctl', 'C10_proj_ctl.c', ['src/mapping_matrix.c'], ['-DMAXR=4'], unwind=1,
                unwindset=['harness:21', 'opus_projection_encoder_ctl:4'], functions=['opus_projection_encoder_ctl'], budget=600, replay=False,
                stubs=['opus_multistream_encoder_ctl_va_list: not reached by the three matrix ctls'],
                bounds='constructed projection encoder state: 1..3 channels, streams+coupled <= 3, stored demixing matrix of any size up to 4x4 with rows >= channels, any cells, any requested size'))
    return L
