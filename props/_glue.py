# shared by C02 / C05 / C11 / C20: obligations of the encoder glue harness (harness/C02_glue.c)
GLUE_REPLACE = ['opus_encode_frame_native_REAL:stub_frame', 'compute_stereo_width_REAL:stub_width', 'is_digital_silence_REAL:stub_silence', 'compute_frame_energy_REAL:stub_energy']
FSN = [8000, 12000, 16000, 24000, 48000]
DURN = ['2.5', '5', '10', '20', '40', '60', '80', '100', '120']
GLUE_ASSUMPTIONS = ['encoder pre-state: any value satisfying the representation invariant written in harness/C02_glue.c (each conjunct names the only code that writes the field)',
                    'frame encoder, analysis, repacketizer and pad calls are contract stubs (listed per obligation); the repacketizer/pad contracts are what C07 proves on the real code']

def glue_ob(Ob, prefix, fsi, dur, tier, maxout=1500, budget=900):
    return Ob('%s.fs%d.%sms' % (prefix, FSN[fsi], DURN[dur]), 'C02_glue.c', ['src/opus.c', 'src/opus_decoder.c'], ['-DFSI=%d' % fsi, '-DDUR=%d' % dur, '-DMAXOUT=%d' % maxout], unwind=1,
              replace=GLUE_REPLACE, unwindset=['opus_encode_native:9', 'decide_fec:7', 'compute_silk_rate_for_hybrid:9', 'gen_toc:9', 'frame_size_select:10', 'opus_packet_parse_impl:3', 'opus_packet_get_nb_frames:2'],
              functions=['opus_encode_native', 'gen_toc'], budget=budget, tier=tier, replay=False, mem_gb=16,
              stubs=['opus_encode_frame_native: synth stub', 'run_analysis, tonality_get_info, is_digital_silence, compute_stereo_width, compute_frame_energy: any value',
                     'opus_packet_pad, opus_repacketizer_init/_cat/_out_range_impl: contract stubs (C07)', 'celt_encoder_ctl: CELT_GET_MODE only'],
              bounds='Fs=%d, %s ms frames (case selectors); any encoder state satisfying the invariant (channels, application, forced channels/mode/bandwidth, bitrate incl. AUTO/MAX, VBR/CBR, FEC, loss, DTX, complexity, LFE, previous mode/bandwidth/channels); out_data_bytes 0..%d' % (FSN[fsi], DURN[dur], maxout))

FRAME_REPLACE = ['hp_cutoff_REAL:stub_hp', 'dc_reject_REAL:stub_dc', 'gain_fade_REAL:stub_gain_fade', 'stereo_fade_REAL:stub_stereo_fade',
                 'compute_frame_energy_REAL:stub_energy', 'celt_inner_prod_c_REAL:stub_inner']
FDUR = ['2.5', '5', '10', '20', '40', '60']

MODEN = {1000: 'silk', 1001: 'hybrid', 1002: 'celt'}

def frame_ob(Ob, prefix, mode, fsi, dur, ch, ld, tier, maxb=40, budget=900):
    return Ob('%s.%s.fs%d.%sms.ch%d%s.max%d' % (prefix, MODEN[mode], FSN[fsi], FDUR[dur], ch, '.lowdelay' if ld else '', maxb), 'C05_frame.c',
              ['src/opus.c', 'src/opus_decoder.c', 'celt/entenc.c', 'celt/entcode.c', 'silk/lin2log.c', 'silk/log2lin.c'],
              ['-DFSI=%d' % fsi, '-DDUR=%d' % dur, '-DCH=%d' % ch, '-DLD=%d' % ld, '-DMAXB=%d' % maxb, '-DMODESEL=%d' % mode], unwind=1, native_mem=True,
              replace=FRAME_REPLACE, unwindset=['opus_encode_frame_native:%d' % (maxb + 2), 'compute_silk_rate_for_hybrid:9', 'gen_toc:9', 'ec_enc_normalize:6', 'ec_enc_done:8', 'ec_enc_carry_out:6',
                                                'ec_enc_uint:3', 'ec_enc_bits:6', 'compute_redundancy_bytes:2', 'opus_packet_parse_impl:3'],
              functions=['opus_encode_frame_native', 'decide_dtx_mode', 'gen_toc', 'compute_redundancy_bytes', 'compute_silk_rate_for_hybrid', 'ec_enc_bit_logp', 'ec_enc_uint', 'ec_enc_shrink', 'ec_enc_done'],
              budget=budget, tier=tier, replay=False, mem_gb=24, mask=[r'arithmetic overflow on signed - in \(\(_this->buf \+'],
              stubs=['silk_Encode: any SILK encoder (asserts its control structure with the real check_control_input; leaves the range coder in any consistent state, incl. over budget)',
                     'celt_encode_with_ec: refuses < 2 bytes; touches first/last byte of the region handed down; any size 2..budget (VBR)',
                     'celt_encoder_ctl: CELT_GET_MODE, OPUS_GET_FINAL_RANGE, logs the settings', 'hp_cutoff, dc_reject, gain_fade, stereo_fade: touch first/last sample of their regions',
                     'celt_inner_prod, compute_frame_energy, exp: any value', 'opus_packet_pad: contract stub (C07-H3)'],
              assumptions=['encoder pre-state: invariant of harness/C05_frame.c (C02_glue.c invariant + what opus_encode_native establishes before the call: decided mode/bandwidth pair, frame size legal for the mode, >= 3 bytes of budget - asserted at C02_glue.c frame-encoder stub)',
                           'no surround energy mask (energy_masking == NULL)'],
              bounds=MODEN[mode] + ' mode, Fs=%d, %s ms, %d channel(s)%s (case selectors); any bandwidth/settings/previous mode satisfying the invariant; budget 3..%d bytes; any redundancy/prefill/to_celt/silence request, any analysis result' % (FSN[fsi], FDUR[dur], ch, ', RESTRICTED_LOWDELAY' if ld else '', maxb))

def msenc_ob(Ob, prefix, ns, nc, fsi, dur, tier, maxout=600, budget=900):
    return Ob('%s.streams%d.coupled%d.fs%d.%sms.max%d' % (prefix, ns, nc, FSN[fsi], DURN[dur], maxout), 'C10_msenc.c', ['src/opus_multistream.c'], ['-DNS=%d' % ns, '-DNC=%d' % nc, '-DFSI=%d' % fsi, '-DDUR=%d' % dur, '-DMAXOUT=%d' % maxout],
              unwind=1, replace=['surround_analysis_REAL:stub_surround'], replay=False, budget=budget, tier=tier, mem_gb=16,
              unwindset=['opus_multistream_encode_native:22', 'rate_allocation:4', 'surround_rate_allocation:4', 'ambisonics_rate_allocation:4', 'validate_layout:7', 'validate_encoder_layout:4',
                         'get_left_channel:7', 'get_right_channel:7', 'get_mono_channel:7', 'harness:7', 'ms_get_preemph_mem:4', 'ms_get_window_mem:4'],
              functions=['opus_multistream_encode_native', 'rate_allocation', 'surround_rate_allocation', 'ambisonics_rate_allocation', 'get_left_channel', 'get_right_channel', 'get_mono_channel'],
              stubs=['opus_encode_native: any single-frame packet of 1..budget bytes', 'opus_repacketizer_cat / _out_range_impl: contract stubs for one-frame packets (C07-H2)',
                     'opus_encoder_ctl: getters + bitrate log', 'opus_encoder_get_size, frame_size_select (FRAMESIZE_ARG), surround_analysis, copy_channel_in: stand-ins'],
              bounds='%d streams, %d coupled, Fs=%d, %s ms (case selectors); any valid mapping, any mapping type, bitrate AUTO/MAX/500..300000 per channel, VBR/CBR, max_data_bytes 0..%d' % (ns, nc, FSN[fsi], DURN[dur], maxout))

def load_glue(VERIF):
    return None
