# shared by C02 / C05 / C11 / C20: obligations of the encoder glue harness (harness/C02_glue.c)
GLUE_REPLACE = ['opus_encode_frame_native_REAL:stub_frame', 'compute_stereo_width_REAL:stub_width', 'is_digital_silence_REAL:stub_silence', 'compute_frame_energy_REAL:stub_energy']
FSN = [8000, 12000, 16000, 24000, 48000]
DURN = ['2.5', '5', '10', '20', '40', '60', '80', '100', '120']
GLUE_ASSUMPTIONS = ['encoder pre-state: any value satisfying the representation invariant written in harness/C02_glue.c (each conjunct names the only code that writes the field)',
                    'frame encoder, analysis, repacketizer and pad calls are contract stubs (listed per obligation); the repacketizer/pad contracts are what C07 proves on the real code']

def glue_ob(Ob, prefix, fsi, dur, tier, maxout=1500, budget=900):
    return Ob('%s.fs%d.%sms' % (prefix, FSN[fsi], DURN[dur]), 'C02_glue.c', ['src/opus.c', 'src/opus_decoder.c'], ['-DFSI=%d' % fsi, '-DDUR=%d' % dur, '-DMAXOUT=%d' % maxout], unwind=1,
              replace=GLUE_REPLACE, unwindset=['opus_encode_native:9', 'decide_fec:7', 'compute_silk_rate_for_hybrid:9', 'gen_toc:9', 'frame_size_select:10', 'opus_packet_parse_impl:3', 'opus_packet_get_nb_frames:2'],
              functions=['opus_encode_native', 'gen_toc'], budget=budget, tier=tier, replay=False, mem_gb=16,
              stubs=['opus_encode_frame_native: synth stub', 'run_analysis, tonality_get_info, is_digital_silence, compute_stereo_width, compute_frame_energy: any value',
                     'opus_packet_pad, opus_repacketizer_init/_cat/_out_range_impl: contract stubs (C07)', 'celt_encoder_ctl: CELT_GET_MODE only'],
              bounds='Fs=%d, %s ms frames (case selectors); any encoder state satisfying the invariant (channels, application, forced channels/mode/bandwidth, bitrate incl. AUTO/MAX, VBR/CBR, FEC, loss, DTX, complexity, LFE, previous mode/bandwidth/channels); out_data_bytes 0..%d' % (FSN[fsi], DURN[dur], maxout))

def load_glue(VERIF):
    return None
