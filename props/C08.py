# C08 - range coder (DESIGN.md section 2, C08)
import itertools
ASSUMPTIONS = [
 'buffers of 1..8 bytes (symbolic size); operation kinds fixed per position (exhaustive case split), parameters symbolic',
 'ec_encode / ec_enc_uint totals are concrete per run (a symbolic 32-bit divisor gives no verdict on any back end here)',
 'H5 pre-state: deferred carry run ext <= 16',
]
OUTSIDE = 'symbolic ft in ec_encode/ec_enc_uint; operation sequences longer than 3 (quick) / 4 (thorough); buffers > 8 bytes; carry runs > 16 bytes'
SRC = ['celt/entenc.c', 'celt/entdec.c', 'celt/entcode.c']
KN = {0: 'encode', 1: 'bit_logp', 2: 'bits', 3: 'uint', 4: 'encode_bin', 5: 'icdf'}

def rt(name, seq, buf=8, ft=None, extra=(), tier='quick', budget=None, fun=(), mask=()):
    defs = ['-DK=%d' % len(seq), '-DKSEQ=%s' % ','.join(map(str, seq)), '-DBUF=%d' % buf] + list(extra)
    if ft is not None:
        defs.append('-DFT=%du' % ft)
    return Ob(name, 'C08_roundtrip.c', SRC, defs, unwind=1,
              unwindset=['harness:%d' % (buf + 2), 'ec_enc_carry_out:%d' % (buf + 12), 'ec_enc_normalize:6', 'ec_dec_normalize:6', 'ec_enc_done:%d' % (buf + 8),
                         'ec_enc_bits:6', 'ec_dec_bits:6', 'ec_dec_icdf:6', 'ec_enc_uint:3', 'ec_dec_uint:3', 'ec_enc_shrink:%d' % (buf + 2), 'memmove:%d' % (buf + 2)],
              tier=tier, budget=budget, mask=mask, functions=['ec_enc_done', 'ec_dec_init'] + list(fun),
              bounds='ops=%s, buffer size 1..%d symbolic, parameters symbolic%s' % ('+'.join(KN[k] for k in seq), buf, (', ft=%d' % ft) if ft is not None else ''),
              assumptions=['parameters legal per entenc.h'])

def obligations():
    L = [Ob('H1.tell_frac', 'C08_tellfrac.c', ['celt/entcode.c'], [], unwind=1, unwindset=['ref_tell_frac:4'], functions=['ec_tell_frac'],
            bounds='every normalised rng in (2^23,2^31], nbits_total 33..2^20')]
    base = (1, 2, 5)
    for n in (1, 2, 3):
        for seq in itertools.product(base, repeat=n):
            heavy = (n == 3) or seq in ((1, 5), (5, 5))
            L.append(rt('H2.rt.' + '-'.join(KN[k] for k in seq), seq, buf=6 if n == 3 else 8, tier='thorough' if heavy else 'quick', budget=1500 if heavy else 600))
    # a reduced length-3 set for the quick tier (first op varies, mixed kinds)
    for seq in ((2, 1, 2), (5, 2, 1)):
        L.append(rt('H2.rt3q.' + '-'.join(KN[k] for k in seq), seq, buf=4, budget=600))
    L.append(rt('H2.rt.encode_bin', (4,), buf=6, budget=600))
    L.append(rt('H2.rt.patch.encode_bin', (4,), buf=4, extra=['-DPATCH'], budget=600, fun=['ec_enc_patch_initial_bits']))
    L.append(rt('H2.rt.patch.encode_bin-bits', (4, 2), buf=4, extra=['-DPATCH'], budget=600, fun=['ec_enc_patch_initial_bits']))
    L.append(rt('H2.rt.patch.encode_bin-icdf', (4, 5), buf=4, extra=['-DPATCH'], budget=1500, tier='thorough', fun=['ec_enc_patch_initial_bits']))
    L.append(rt('H2.rt.patch.encode_bin-bit_logp', (4, 1), buf=4, extra=['-DPATCH'], budget=600, fun=['ec_enc_patch_initial_bits']))
    L.append(rt('H2.rt.shrink.bit_logp-bits', (1, 2), buf=6, extra=['-DSHRINK'], budget=900, tier='thorough', fun=['ec_enc_shrink'],
                mask=[r'arithmetic overflow on signed - in .*_this->buf']))
    # H3: division ops with the total as the case selector
    for ft in (2, 3, 5, 7, 16, 17, 255, 256):
        L.append(rt('H3.encode.ft%d' % ft, (0,), buf=4, ft=ft, budget=600, fun=['ec_encode', 'ec_decode']))
    for ft in (2, 3, 255, 256, 257, 65535, 65536, 65537, (1 << 24) + 1, (1 << 31) - 1, (1 << 32) - 1):
        L.append(rt('H3.uint.ft%d' % ft, (3,), buf=8, ft=ft, budget=600, fun=['ec_enc_uint', 'ec_dec_uint'],
                    tier='quick' if ft in (2, 3, 256, 257, 65537, (1 << 32) - 1) else 'thorough'))
    for op, nm in ((1, 'bit_logp'), (2, 'bits'), (4, 'encode_bin'), (5, 'icdf'), (9, 'done')):
        L.append(Ob('H5.acct.' + nm, 'C08_acct.c', ['celt/entenc.c', 'celt/entcode.c'], ['-DOP=%d' % op], unwind=1,
                    unwindset=['harness:9', 'ec_enc_carry_out:20', 'ec_enc_normalize:6', 'ec_enc_done:12', 'ec_enc_bits:6'], budget=600,
                    functions=['ec_enc_done' if op == 9 else {1: 'ec_enc_bit_logp', 2: 'ec_enc_bits', 4: 'ec_encode_bin', 5: 'ec_enc_icdf'}[op]],
                    bounds='one operation from ANY encoder state satisfying the accounting invariant, storage<=8, ext<=16',
                    assumptions=['pre-state: accounting invariant nbits_total == 33+8(offs+ext+[rem>=0])+8 end_offs+nend_bits']))
    return L
