# C18 - SILK side information dequantises safely (DESIGN.md section 2, C18)
ASSUMPTIONS = ['index ranges = what silk_decode_indices can produce from the real ICDF tables (C01-H5 decides that)',
               'composition by contract: silk_NLSF_stabilize / silk_NLSF_decode / silk_NLSF2A are stubs whose contracts are proved on the real code by H1/H2 or asserted as preconditions']
OUTSIDE = ('stability and bounded gain of the LPC filter produced by silk_NLSF2A (polynomial root location through 64-bit multiplies and a 16-round '
           'bandwidth-expansion loop): no bounded encoding within reach, not claimed; silk_LPC_fit/LPC_inverse_pred_gain internals')
TAB = ['silk/tables_NLSF_CB_NB_MB.c', 'silk/tables_NLSF_CB_WB.c']

import os, subprocess
def gen_flat_pitch(d):
    """cbmc 6.11 returns an unconstrained value for a read past row 0 of a constant 2-D table through &T[0][0] (the C standard leaves
    it undefined; every compiler defines it, and silk_decode_pitch relies on it).  The four lag codebooks are therefore re-emitted as flat
    1-D arrays, dumped from the *current* silk/pitch_est_tables.c by a natively compiled printer, and decode_pitch.c is compiled against them."""
    T = [('silk_CB_lags_stage2', 4, 11), ('silk_CB_lags_stage3', 4, 34), ('silk_CB_lags_stage2_10_ms', 2, 3), ('silk_CB_lags_stage3_10_ms', 2, 12)]
    src = os.path.join(d, 'dump.c')
    with open(src, 'w') as f:
        f.write('#include <stdio.h>\n#include "%s"\nint main(void){\n' % os.path.join(REPO, 'silk', 'pitch_est_tables.c'))
        for n, r, c in T:
            f.write(' { const opus_int8 (*t)[%d]=%s; if(sizeof(%s)!=%d) return 3; printf("static const opus_int8 vt_flat_%s[%d]={"); for(int i=0;i<%d;i++) for(int j=0;j<%d;j++) printf("%%d,",t[i][j]); printf("};\\n"); }\n' % (c, n, n, r * c, n, r * c, r, c))
        f.write(' return 0; }\n')
    inc = ['-I' + os.path.join(REPO, x) for x in ('include', 'celt', 'silk', 'silk/float', '.')] + ['-I' + os.path.join(VERIF, 'harness', 'cfg'), '-DHAVE_CONFIG_H']
    subprocess.check_call(['gcc', '-w'] + inc + [src, '-o', os.path.join(d, 'dump')])
    out = subprocess.check_output([os.path.join(d, 'dump')]).decode()
    with open(os.path.join(d, 'flat_pitch_tables.h'), 'w') as f:
        f.write(out)
        for n, r, c in T:
            f.write('#define %s (*(const opus_int8 (*)[%d][%d])vt_flat_%s)\n' % (n, r, c, n))

def obligations():
    L = []
    for wb, t, b in ((0, 'quick', 600), (1, 'thorough', 1500)):
        L.append(Ob('H1.stabilize.%s' % ('wb' if wb else 'nbmb'), 'C18_stabilize.c', ['silk/NLSF_stabilize.c', 'silk/sort.c'] + TAB, ['-DWB=%d' % wb], unwind=1,
                    unwindset=['harness:17', 'silk_NLSF_stabilize:21', 'silk_insertion_sort_increasing_all_values_int16:17'], functions=['silk_NLSF_stabilize'],
                    tier=t, budget=b, bounds='any int16 vector, %s codebook deltaMin table' % ('WB (order 16)' if wb else 'NB/MB (order 10)')))
    L.append(Ob('H2.nlsf_decode', 'C18_nlsf_decode.c', ['silk/NLSF_decode.c', 'silk/NLSF_unpack.c'] + TAB, [], unwind=1,
                unwindset=['harness:18', 'silk_NLSF_stabilize:17', 'silk_NLSF_decode:17', 'silk_NLSF_residual_dequant:17', 'silk_NLSF_unpack:17'],
                functions=['silk_NLSF_decode', 'silk_NLSF_unpack'], budget=600,
                bounds='both codebooks (symbolic), any first-stage index, residual indices in [-10,10]',
                stubs=['silk_NLSF_stabilize: contract stub (pre asserted, post = H1)']))
    L.append(Ob('H5.gains', 'C18_gains.c', ['silk/gain_quant.c', 'silk/log2lin.c', 'silk/lin2log.c'], [], unwind=1,
                unwindset=['harness:5', 'silk_gains_dequant:5', 'silk_gains_quant:5'], functions=['silk_gains_dequant', 'silk_gains_quant'], budget=600,
                bounds='any previous index 0..63, any absolute (0..63) / delta (0..40) indices, 2 or 4 sub-frames; any positive encoder gains'))
    L.append(Ob('H6.decode_pitch', 'C18_pitch.c', [], [], unwind=1, gen=gen_flat_pitch,
                unwindset=['harness:5', 'silk_decode_pitch:5'], functions=['silk_decode_pitch'], budget=600,
                bounds='any lagIndex in int16, any contour index of the (fs, nb_subfr) codebook, fs in {8,12,16}, 2/4 sub-frames'))
    for ic in (0, 1, 2, 3, 4):
      for (fs, nb) in ((0, 0),):
        L.append(Ob('H3.decode_parameters.interp%d' % ic, 'C18_params.c', ['silk/decode_parameters.c', 'silk/gain_quant.c', 'silk/log2lin.c',
                'silk/tables_LTP.c', 'silk/tables_other.c'] + TAB, ['-DSTUB_PITCH', '-DFIXINTERP=%d' % ic], unwind=1, tier=('thorough' if ic == 3 else 'quick'), memwords=10,
                unwindset=['harness:17', 'nlsf_ok:17', 'silk_NLSF_decode:17', 'silk_NLSF2A:17', 'silk_bwexpander:17', 'silk_decode_parameters:17', 'silk_decode_parameters.3:6',
                           'silk_gains_dequant:5', 'silk_decode_pitch:5', 'memcpy:40', 'memset:40'],
                functions=['silk_decode_parameters', 'silk_gains_dequant'], budget=(1500 if ic == 3 else 600),
                bounds='NLSF interpolation factor %d/4 (case split), any fs in {8,12,16}, 2/4 sub-frames, any condCoding,' % ic + ' any in-range indices, lagIndex incl. out-of-range delta results, any valid previous NLSF',
                stubs=['silk_decode_pitch: contract stub (post = H6)', 'silk_NLSF_decode: contract stub (post = H1/H2)', 'silk_NLSF2A: precondition asserted, output havoc', 'silk_bwexpander: havoc']))
    return L
