# C15 - optimised (SIMD, run-time dispatched) kernels match the portable C code (DESIGN.md section 2, C15)
import os, subprocess
ASSUMPTIONS = ['SSE intrinsics are plain-C lane models (shim_sse/vt_sse_shim.h, Intel SDM semantics); setup_check.py compares every model with the real instruction on the host CPU',
               'both kernels are compared under two\'s-complement wrap-around arithmetic for unconstrained int32 inputs (signed-overflow checks off in this harness)',
               'the codebook rows are flat copies of the real LTP codebooks dumped from the current silk/tables_LTP.c (cbmc mis-models reads past row 0 of a 2-D table through &T[0][0])']
OUTSIDE = ('every other dispatched kernel: NSQ / NSQ_del_dec (sse4.1, avx2), VAD, burg/inner-product (float, avx2), pitch xcorr / comb filter / PVQ search (float), celt_lpc; '
           'their loops over 40-960 samples and float reassociation give no bounded encoding within reach; arch levels other than SSE4.1 for this kernel (AVX2 reuses it); '
           'symbolic codebooks; whole-codebook searches beyond the row windows listed')
SIZES = [8, 16, 32]

def gen_flat_ltp(d):
    src = os.path.join(d, 'dump.c')
    with open(src, 'w') as f:
        f.write('#include <stdio.h>\n#include "%s"\nint main(void){\n' % os.path.join(REPO, 'silk', 'tables_LTP.c'))
        for k, n in enumerate(SIZES):
            f.write(' { const opus_int8 *p=silk_LTP_vq_ptrs_Q7[%d]; if(silk_LTP_vq_sizes[%d]!=%d) return 3; printf("static const opus_int8 vt_flat_ltp_vq_%d[%d]={"); for(int i=0;i<%d;i++) printf("%%d,",p[i]); printf("};\\n"); }\n' % (k, k, n, k, 5 * n, 5 * n))
            f.write(' { const opus_uint8 *p=silk_LTP_vq_gain_ptrs_Q7[%d]; printf("static const opus_uint8 vt_flat_ltp_gain_%d[%d]={"); for(int i=0;i<%d;i++) printf("%%d,",p[i]); printf("};\\n"); }\n' % (k, k, n, n))
            f.write(' { const opus_uint8 *p=silk_LTP_gain_BITS_Q5_ptrs[%d]; printf("static const opus_uint8 vt_flat_ltp_bits_%d[%d]={"); for(int i=0;i<%d;i++) printf("%%d,",p[i]); printf("};\\n"); }\n' % (k, k, n, n))
        f.write(' return 0; }\n')
    inc = ['-I' + os.path.join(REPO, x) for x in ('include', 'celt', 'silk', 'silk/float', '.')] + ['-I' + os.path.join(VERIF, 'harness', 'cfg'), '-DHAVE_CONFIG_H']
    subprocess.check_call(['gcc', '-w'] + inc + [src, '-o', os.path.join(d, 'dump')])
    out = subprocess.check_output([os.path.join(d, 'dump')]).decode()
    with open(os.path.join(d, 'flat_ltp_tables.h'), 'w') as f:
        f.write(out)
        f.write('static const opus_int8 *const vt_flat_ltp_vq[3]={vt_flat_ltp_vq_0,vt_flat_ltp_vq_1,vt_flat_ltp_vq_2};\n')
        f.write('static const opus_uint8 *const vt_flat_ltp_gain[3]={vt_flat_ltp_gain_0,vt_flat_ltp_gain_1,vt_flat_ltp_gain_2};\n')
        f.write('static const opus_uint8 *const vt_flat_ltp_bits[3]={vt_flat_ltp_bits_0,vt_flat_ltp_bits_1,vt_flat_ltp_bits_2};\n')

def vq_ob(cbk, row, nrows, tier, budget=900, dup=False):
    return Ob(('H1.vq_wmat_ec.sse4_1_vs_c.cbk%d.rows%d_%d' % (cbk, row, row + nrows - 1)) if not dup else ('H1b.vq_wmat_ec.tie_break.cbk%d.row%d_twice' % (cbk, row)), 'C15_vq.c', ['silk/VQ_WMat_EC.c', 'silk/x86/VQ_WMat_EC_sse4_1.c', 'silk/lin2log.c'],
              ['-DCBK=%d' % cbk, '-DROW=%d' % row, '-DNROWS=%d' % nrows] + (['-DDUPROW'] if dup else []) + [ '-DOPUS_X86_MAY_HAVE_SSE4_1', '-DOPUS_X86_MAY_HAVE_SSE2', '-DOPUS_X86_MAY_HAVE_SSE', '-DOPUS_HAVE_RTCD'],
              unwind=1, inc=['shim_sse'], gen=gen_flat_ltp, drop_checks=['--signed-overflow-check', '--undefined-shift-check'], flags=['--no-signed-overflow-check', '--no-undefined-shift-check'],
              unwindset=['harness:26', 'silk_VQ_WMat_EC_c:%d' % (nrows + 1), 'silk_VQ_WMat_EC_sse4_1:%d' % (nrows + 1)],
              functions=['silk_VQ_WMat_EC_c', 'silk_VQ_WMat_EC_sse4_1'], budget=budget, tier=tier, replay=False,
              bounds=('LTP codebook %d rows %d..%d (case selector), any XX_Q17[25], xX_Q17[5], max_gain_Q7 (int32), subfr_len 40/80' % (cbk, row, row + nrows - 1)) if not dup else ('two-entry codebook holding row %d of LTP codebook %d twice (every input is a tie between the two entries), any XX_Q17[25], xX_Q17[5], max_gain_Q7, subfr_len 40/80' % (row, cbk)))

def obligations():
    L = []
    quick = {(0, 0), (0, 7), (1, 5), (2, 31), (2, 16)}
    for cbk, n in enumerate(SIZES):
        for row in range(n):
            L.append(vq_ob(cbk, row, 1, 'quick' if (cbk, row) in quick else 'thorough'))
    # two adjacent rows: the running minimum and the tie-break carried between rows are compared too
    for cbk, row in ((0, 0), (0, 6), (1, 7), (2, 30)):
        L.append(vq_ob(cbk, row, 2, 'thorough', budget=1500))
    for cbk, row, tier in ((0, 3, 'quick'), (1, 11, 'quick'), (2, 20, 'thorough'), (1, 0, 'thorough')):
        L.append(vq_ob(cbk, row, 2, tier, dup=True))
    return L
