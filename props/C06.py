# C06 - packet parser accepts exactly RFC 6716 framing (DESIGN.md section 2, C06)
ASSUMPTIONS = [
 'oracle = /verif/spec/rfc6716_framing.h, an independent transcription of RFC 6716 section 3.2 (R1-R7) and Appendix B',
 'float build macros of the pinned cmake build, C (non-RTCD) code paths',
 'differential runs use a fixed-size input array (over-reads are decided by C01-H1 on exact-size objects)',
]
OUTSIDE = ('code-3 VBR packets with more than 8 (quick) / 12 (thorough) frames or longer than 128 bytes; code-3 CBR packets longer than '
           '300 bytes (quick: any count) / 1600 bytes (thorough: per count); codes 0-2 longer than 1600 bytes')
SRC = ['src/opus.c']
FUN = ['opus_packet_parse_impl']

def ob(name, defs, unw, tier='quick', budget=None, bounds='', harness='C06_diff.c', fun=FUN, **kw):
    return Ob(name, harness, SRC, defs, unwind=1, unwindset=unw, tier=tier, budget=budget, functions=fun, bounds=bounds,
              stubs=[], assumptions=['bytes and length unconstrained within the bound'], **kw)

def obligations():
    L = []
    for sd in (0, 1):
        fr = 'self-delimited' if sd else 'standard'
        for code in (0, 1, 2):
            L.append(ob('diff.code%d.sd%d.len1600' % (code, sd), ['-DMAXLEN=1600', '-DCODE=%d' % code, '-DSD=%d' % sd],
                        ['harness:1601', 'harness.2:49', 'opus_packet_parse_impl:4', 'rfc_parse:4'],
                        budget=600, bounds='any bytes, any len 0..1600, code %d, %s framing' % (code, fr)))
        # code 3, CBR, frame-count byte symbolic (all 64 values incl. 0 and 49..63), padding chains included
        for ml, tier, bud in ((160, 'quick', 600), (300, 'thorough', 1500)):
            L.append(ob('diff.code3.cbr.anycount.sd%d.len%d' % (sd, ml), ['-DMAXLEN=%d' % ml, '-DCODE=3', '-DSD=%d' % sd, '-DVBRBIT=0'],
                        ['harness:%d' % (ml + 1), 'harness.2:49', 'opus_packet_parse_impl:49', 'rfc_parse:49'], budget=bud, tier=tier,
                        bounds='any bytes, len 0..%d, code 3 CBR, any frame-count byte, %s framing' % (ml, fr), witness_defs=['-DWIT_COUNT=5']))
        # code 3, VBR, one run per frame count
        for c in range(0, 13):
            tier = 'quick' if c <= 8 else 'thorough'
            L.append(ob('diff.code3.vbr.count%d.sd%d.len128' % (c, sd), ['-DMAXLEN=128', '-DCODE=3', '-DSD=%d' % sd, '-DVBRBIT=1', '-DCOUNT=%d' % c],
                        ['harness:129', 'harness.2:49', 'opus_packet_parse_impl:%d' % max(c + 1, 4), 'rfc_parse:%d' % max(c + 1, 4)],
                        tier=tier, budget=600 if c <= 8 else 1500,
                        bounds='any bytes, len 0..128, code 3 VBR, %d frames, %s framing' % (c, fr),
                        witness=(c > 0), witness_defs=['-DWIT_COUNT=%d' % c]))
        for c in (49, 63):
            L.append(ob('diff.code3.vbr.count%d.sd%d.len128' % (c, sd), ['-DMAXLEN=128', '-DCODE=3', '-DSD=%d' % sd, '-DVBRBIT=1', '-DCOUNT=%d' % c],
                        ['harness:129', 'harness.2:49', 'opus_packet_parse_impl:4', 'rfc_parse:4'], witness=False,
                        bounds='any bytes, len 0..128, code 3 VBR, count byte %d (must be rejected), %s framing' % (c, fr)))
        # thorough: CBR per count up to 1600 bytes
        for c in range(1, 49):
            L.append(ob('diff.code3.cbr.count%d.sd%d.len1600' % (c, sd), ['-DMAXLEN=1600', '-DCODE=3', '-DSD=%d' % sd, '-DVBRBIT=0', '-DCOUNT=%d' % c],
                        ['harness:1601', 'harness.2:49', 'opus_packet_parse_impl:%d' % max(c + 1, 9), 'rfc_parse:%d' % max(c + 1, 9)],
                        tier='thorough', budget=1500, bounds='any bytes, len 0..1600, code 3 CBR, %d frames, %s framing' % (c, fr),
                        witness_defs=['-DWIT_COUNT=%d' % c]))
    return L
