#ifndef RFC6716_FRAMING_H
#define RFC6716_FRAMING_H
/* Executable transcription of RFC 6716 section 3.2 (R1-R7) and Appendix B (self-delimiting framing).
   Written from the RFC text; deliberately structured differently from src/opus.c. */
typedef struct { int valid; int toc; int count; int size[48]; int frame_off[48]; int payload_off; int pad_total; int consumed; } rfc_pkt;

/* section 3.2.1: frame length coding. returns number of bytes used (0 = cannot decode) */
static int rfc_len(const unsigned char *p, int avail, int *out){
  if(avail<1) return 0;
  if(p[0]<=251){ *out=p[0]; return 1; }
  if(avail<2) return 0;
  *out = p[1]*4 + p[0]; return 2;
}
/* duration of one frame in units of 1/48000 s from the TOC config (Table 2) */
static int rfc_frame_48k(int toc){
  int cfg=toc>>3;
  if(cfg<12){ static const int d[4]={480,960,1920,2880}; return d[cfg&3]; }      /* SILK 10/20/40/60 */
  if(cfg<16){ return (cfg&1)?960:480; }                                           /* hybrid 10/20 */
  { static const int d[4]={120,240,480,960}; return d[cfg&3]; }                   /* CELT 2.5/5/10/20 */
}
static rfc_pkt rfc_parse(const unsigned char *d, int len, int self_delim){
  rfc_pkt r; int pos, i, n, M=0, vbr=0, padflag=0, P=0, L;
  r.valid=0; r.count=0; r.pad_total=0; r.payload_off=0; r.consumed=0; r.toc=0;
  if(len<1) return r;                                   /* R1 */
  r.toc=d[0]; pos=1;
  switch(d[0]&3){
  case 0: M=1; break;
  case 1: M=2; break;
  case 2: M=2; vbr=1; break;
  default:
    if(len<2) return r;                                 /* R6 */
    M=d[1]&63; vbr=(d[1]>>7)&1; padflag=(d[1]>>6)&1; pos=2;
    if(M==0) return r;                                  /* R5 */
    if(M*rfc_frame_48k(d[0])>5760) return r;            /* R5: 120 ms */
    if(padflag){
      for(;;){ int b; if(pos>=len || P>len) return r; b=d[pos++]; if(b==255) P+=254; else { P+=b; break; } }
    }
    break;
  }
  /* explicit lengths present in the header */
  {
    int explicit_n = 0;
    if((d[0]&3)==2) explicit_n=1;
    else if((d[0]&3)==3 && vbr) explicit_n=M-1;
    for(i=0;i<explicit_n;i++){ n=rfc_len(d+pos,len-pos,&L); if(!n) return r; pos+=n; r.size[i]=L; }
    if(self_delim){
      n=rfc_len(d+pos,len-pos,&L); if(!n) return r; pos+=n;
      if((d[0]&3)==0 || ((d[0]&3)==2) || ((d[0]&3)==3 && vbr)) r.size[M-1]=L;
      else for(i=0;i<M;i++) r.size[i]=L;                 /* CBR: one length for all frames */
      {
        int tot=0; for(i=0;i<M;i++) tot+=r.size[i];
        if(pos+tot+P>len) return r;
        r.consumed=pos+tot+P;
      }
    } else {
      int rem=len-pos-P; if(rem<0) return r;             /* R6/R7 */
      if((d[0]&3)==0) r.size[0]=rem;
      else if((d[0]&3)==1){ if(rem&1) return r; r.size[0]=r.size[1]=rem/2; }            /* R3 */
      else if((d[0]&3)==2){ if(r.size[0]>rem) return r; r.size[1]=rem-r.size[0]; }      /* R4 */
      else if(!vbr){ if(rem%M) return r; for(i=0;i<M;i++) r.size[i]=rem/M; }           /* R6 */
      else { int tot=0; for(i=0;i<M-1;i++) tot+=r.size[i]; if(tot>rem) return r; r.size[M-1]=rem-tot; } /* R7 */
      r.consumed=len;
    }
  }
  for(i=0;i<M;i++) if(r.size[i]>1275) return r;          /* R2 */
  r.payload_off=pos;
  for(i=0;i<M;i++){ r.frame_off[i]=pos; pos+=r.size[i]; }
  r.pad_total=P; r.count=M; r.valid=1; return r;
}
/* RFC 6716 Table 2: audio bandwidth of a configuration number (OPUS_BANDWIDTH_* = 1101..1105) */
static int rfc_bandwidth(int toc){
  int cfg=toc>>3;
  if(cfg<4) return 1101; if(cfg<8) return 1102; if(cfg<12) return 1103;   /* SILK NB, MB, WB */
  if(cfg<14) return 1104; if(cfg<16) return 1105;                         /* hybrid SWB, FB */
  if(cfg<20) return 1101; if(cfg<24) return 1103; if(cfg<28) return 1104; return 1105; /* CELT NB, WB, SWB, FB */
}
#endif
