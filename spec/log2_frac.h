/* Definition of the pulse cache's bit cost: log2(val) with `frac` fractional bits, rounded up.
   Copied from the CUSTOM_MODES branch of celt/cwrs.c (not compiled in the pinned build), which is the
   generator of the static cache tables. */
static int spec_log2_frac(unsigned val, int frac)
{
  int l;
  l=val?32-__builtin_clz(val):0;
  if(val&(val-1)){
    if(l>16)val=((val-1)>>(l-16))+1;
    else val<<=16-l;
    l=(l-1)<<frac;
    do{
      int b;
      b=(int)(val>>16);
      l+=b<<frac;
      val=(val+b)>>b;
      val=(val*val+0x7FFF)>>15;
    }
    while(frac-->0);
    return l+(val>0x8000);
  }
  else return (l-1)<<frac;
}
