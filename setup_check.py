#!/usr/bin/env python3
"""MANIFEST.setup_cmd: verifies that the tools the checks need are present; nothing is built or cached."""
import shutil, subprocess, sys
ok = True
for t in ('cbmc', 'goto-cc', 'goto-instrument', 'kissat', 'gcc', 'python3'):
    p = shutil.which(t)
    print('%-16s %s' % (t, p or 'MISSING'))
    ok &= bool(p)
if ok:
    v = subprocess.run(['cbmc', '--version'], capture_output=True, text=True).stdout.strip()
    print('cbmc version', v)
# validate the plain-C SSE lane models used by C15 against the host CPU (nothing is cached: the binary is removed again)
import os, tempfile
V = os.path.dirname(os.path.abspath(__file__))
if ok and 'sse4_1' in open('/proc/cpuinfo').read():
    d = tempfile.mkdtemp(prefix='verif-setup-', dir=os.environ.get('VERIF_SCRATCH', '/var/tmp'))
    exe = os.path.join(d, 'v')
    r = subprocess.run(['gcc', '-O1', '-w', '-msse4.1', os.path.join(V, 'shim_sse', 'validate.c'), '-o', exe], capture_output=True, text=True)
    if r.returncode == 0:
        r = subprocess.run([exe], capture_output=True, text=True)
    print((r.stdout + r.stderr).strip())
    ok &= (r.returncode == 0)
    shutil.rmtree(d, ignore_errors=True)
elif ok:
    print('host CPU has no SSE4.1: shim_sse models not validated here (C15 evidence says so)')
sys.exit(0 if ok else 1)
