#!/usr/bin/env python3
"""MANIFEST.setup_cmd: verifies that the tools the checks need are present; nothing is built or cached."""
import shutil, subprocess, sys
ok = True
for t in ('cbmc', 'goto-cc', 'goto-instrument', 'kissat', 'gcc', 'python3'):
    p = shutil.which(t)
    print('%-16s %s' % (t, p or 'MISSING'))
    ok &= bool(p)
if ok:
    v = subprocess.run(['cbmc', '--version'], capture_output=True, text=True).stdout.strip()
    print('cbmc version', v)
sys.exit(0 if ok else 1)
