/* Two decoded channels at ~0.92 full scale routed to the same output with unit coefficients: the 16-bit output must clip at
   32767; before the fix it wrapped to a large negative value. Build: gcc -I include -I celt -I src -I. -DOPUS_BUILD demo.c src/mapping_matrix.c celt/celt.c */
#include <stdio.h>
#include <string.h>
#include "arch.h"
#include "mapping_matrix.h"
int main(void){
  struct { MappingMatrix m; opus_int16 pad_[2]; opus_int16 d[4]; } M; memset(&M,0,sizeof M);
  static const opus_int16 cells[4]={32767,0,32767,0};    /* 2x2, col-wise: out0 = in0 + in1 */
  mapping_matrix_init(&M.m,2,2,0,cells,sizeof cells);
  float in0[1]={30000.f/32768.f}, in1[1]={30000.f/32768.f}; opus_int16 out[2]={0,0};
  mapping_matrix_multiply_channel_out_short(&M.m,in0,0,1,out,2,1);
  mapping_matrix_multiply_channel_out_short(&M.m,in1,1,1,out,2,1);
  printf("out0=%d (expected 32767)\n",out[0]);
  return out[0]==32767?0:1; }
