int nondet_int(void); unsigned char nondet_uchar(void);
int rd(const unsigned char *p,int j){ return p[j-1]-p[j]; }
const unsigned char T[2][4]={{9,5,2,0},{7,3,1,0}};
void harness(void){
  unsigned char L[2][4];
  for(int i=0;i<2;i++){ L[i][0]=nondet_uchar(); L[i][1]=nondet_uchar(); L[i][2]=nondet_uchar(); L[i][3]=0;
    __CPROVER_assume(L[i][0]>L[i][1] && L[i][1]>L[i][2] && L[i][2]>0); }
  int s=nondet_int(); __CPROVER_assume(s>=1&&s<=3);
  __CPROVER_assert(rd(L[1],s)>0,"local row pointer symbolic col");
  __CPROVER_assert(rd(L[0],s)>0,"local row0 pointer symbolic col");
  int r=nondet_int(); __CPROVER_assume(r>=0&&r<2);
  __CPROVER_assert(rd(T[r],s)>0,"const row pointer symbolic row/col");
  __CPROVER_assert(rd(T[1],s)>0,"const row1 pointer symbolic col");
}
