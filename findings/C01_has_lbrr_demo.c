#include <stdlib.h>
#include <stdio.h>
#include <string.h>
#include "opus.h"
int main(int argc,char**argv){
  int which=atoi(argv[1]);
  if(which==0){ unsigned char *p=malloc(1); p[0]=0x00; printf("ret=%d\n",opus_packet_has_lbrr(p,1)); }
  if(which==1){ unsigned char *p=malloc(0); printf("ret=%d\n",opus_packet_has_lbrr(p,0)); }
  if(which==2){ unsigned char *p=malloc(2); p[0]=0x02; p[1]=0; printf("ret=%d\n",opus_packet_has_lbrr(p,2)); }
  return 0; }
