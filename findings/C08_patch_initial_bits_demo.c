#include <stdio.h>
#include "entenc.h"
#include "entdec.h"
void celt_fatal(const char *s,const char*f,int l){printf("fatal %s\n",s);}
int main(){ unsigned char buf[3]={160,160,160}; ec_enc e; ec_dec d; ec_enc_init(&e,buf,3);
 ec_encode_bin(&e,1,2,1); ec_enc_bit_logp(&e,1,13);
 printf("offs=%u rem=%d ext=%u rng=%x val=%x err=%d\n",e.offs,e.rem,e.ext,e.rng,e.val,e.error);
 ec_enc_patch_initial_bits(&e,0,1);
 printf("offs=%u rem=%d ext=%u rng=%x val=%x err=%d buf0=%x\n",e.offs,e.rem,e.ext,e.rng,e.val,e.error,buf[0]);
 ec_enc_done(&e); printf("err=%d buf=%x %x %x\n",e.error,buf[0],buf[1],buf[2]);
 ec_dec_init(&d,buf,3); unsigned s=ec_decode_bin(&d,1); printf("s=%u\n",s); ec_dec_update(&d,s,s+1,2); printf("bit=%d\n",ec_dec_bit_logp(&d,13)); return 0;}
