#include <string.h>
int nondet_int(void);
void harness(void){ int a[8],b[8]; unsigned char c[8], d[8]; int n=nondet_int(); __CPROVER_assume(n>=1&&n<=2);
  for(int i=0;i<8;i++){a[i]=7;b[i]=i+1;c[i]=9;d[i]=i+1;}
  memset(a,0,2*sizeof(*a)); __CPROVER_assert(a[1]==0&&a[0]==0&&a[2]==7,"const-size memset int");
  memset(c,0,n); __CPROVER_assert(c[0]==0 && (n<2||c[1]==0) && c[2]==9,"sym-size memset bytes");
  a[0]=7;a[1]=7; memcpy(a,b,n*sizeof(*a)); __CPROVER_assert(a[0]==1 && (n<2||a[1]==2) && a[2]==7,"sym-size memcpy int");
  memcpy(c,d,n); __CPROVER_assert(c[0]==1 && (n<2||c[1]==2) && c[2]==9,"sym-size memcpy bytes");
  memmove(a+1,a,n*sizeof(*a)); __CPROVER_assert(a[1]==1,"sym-size memmove int");
  short s[8]; for(int i=0;i<8;i++) s[i]=5; memset(s,0,n*sizeof(*s)); __CPROVER_assert(s[0]==0 && (n<2||s[1]==0) && s[2]==5,"sym-size memset short");
}
