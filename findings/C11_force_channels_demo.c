/* C11 finding demo: after a stereo->mono transition inside a multi-frame SILK packet, OPUS_GET_FORCE_CHANNELS no longer returns what the
   user set (OPUS_AUTO) and the encoder stays mono for good. */
#include <stdio.h>
#include <stdlib.h>
#include <math.h>
#include "opus.h"
int main(void){
  int err; OpusEncoder *e=opus_encoder_create(16000,2,OPUS_APPLICATION_VOIP,&err);
  static opus_int16 pcm[1920*2]; unsigned char pkt[1500]; int fails=0;
  opus_encoder_ctl(e,OPUS_SET_FORCE_CHANNELS(OPUS_AUTO));
  for(int phase=0;phase<3;phase++){
    opus_encoder_ctl(e,OPUS_SET_BITRATE(phase==1?8000:64000));
    for(int k=0;k<6;k++){
      for(int i=0;i<1920;i++){ pcm[2*i]=(opus_int16)(8000*sin(0.05*(i+1920*k))); pcm[2*i+1]=(opus_int16)(8000*sin(0.031*(i+1920*k))); }
      int n=opus_encode(e,pcm,1920,pkt,sizeof pkt); if(n<0){ printf("encode error %d\n",n); return 2; }
      opus_int32 fc=0; opus_encoder_ctl(e,OPUS_GET_FORCE_CHANNELS(&fc));
      if(fc!=OPUS_AUTO){ if(!fails) printf("phase %d packet %d: OPUS_GET_FORCE_CHANNELS returns %d, the user set OPUS_AUTO (%d)\n",phase,k,fc,OPUS_AUTO); fails++; }
      if(phase==2 && k==5) printf("last packet at 64 kb/s codes %d channel(s)\n", opus_packet_get_nb_channels(pkt));
    }
  }
  printf(fails?"FAIL\n":"PASS\n"); return fails?1:0;
}
