#include <stdlib.h>
#include <stdio.h>
#include "opus.h"
int main(void){ unsigned char *b=malloc(8); int r=opus_packet_has_lbrr(b+8,0); fprintf(stderr,"ret=%d\n",r); return 0; }
