#!/usr/bin/env python3
"""Regenerates MANIFEST.json from the table below (kept in one place so it stays valid)."""
import json, os
V = os.path.dirname(os.path.abspath(__file__))
TECH = 'bounded symbolic execution of the real C sources with CBMC 6.11 (goto-cc + SAT/kissat), unwinding assertions on; counterexamples replayed natively under ASan/UBSan'
NOTE = ('Bounded claim: holds for every input within the per-harness bounds listed in the evidence file (samples[].bounds); '
        'trusted base: CBMC/kissat, the harness assumptions and stub contracts listed in evidence, pinned float-build macros, C (non-RTCD) code paths. ')
CLAIMS = {
 'C01': ('packet-inspection functions and the integer decision logic of the decode front end are memory-safe and return documented results for every packet within the bounds; synthesis DSP is behind stubs and not claimed', '2/C01'),
 'C06': ('differential check of the real parser against an independent RFC 6716 framing model over all byte strings within the length/frame-count bounds', '2/C06'),
 'C17': ('U-table recurrence, PVQ index/vector bijection for small (N,K), Laplace interval tiling and inversion over the whole probability model, every static ICDF table, and the pulse cache, each decided for all symbolic indices within the listed bounds', '2/C17'),
 'C18': ('NLSF stabiliser for any int16 input, NLSF decode, interpolation, gain dequantisation chains (inductive), pitch lag decoding and table reads decided for every index value a bitstream can carry; LPC stability itself is not claimed', '2/C18'),
 'C13': ('the three sample formats convert to bit-identical internal values for every int16, the three encoder entry points hand identical PCM/depth/downmix to the native encoder, and the three decoder exit points round/saturate one common float output as specified; the codec between them is stubbed', '2/C13'),
 'C20': ('DTX decision logic: generalised counter (inductive invariant, exact characterisation of DTX frames, run bound) and the SILK VAD/DTX machine for any activity inputs; signal-to-activity mapping is not claimed', '2/C20'),
 'C16': ('leaf parsers of the extension format (skip_extension, skip_extension_payload) are memory-safe and advance exactly as specified on any buffer up to 300 bytes; one step of the extension iterator from any state satisfying a written representation invariant (inductive: memory safety, reported extension in range and inside the buffer, termination of count/parse/find) for buffers up to 3 (quick) / 5 (thorough) bytes and 3 frames; leaf writers per payload length; carriage through the repacketizer with abstract extension lists; the generator above its leaf writers is not claimed', '2/C16 and 7.2a'),
 'C07': ('one repacketizer cat from any valid state (inductive invariant), out_range from any constructed state re-parsed by the real parser and compared byte for byte, pad/unpad exactness, canonicity and idempotence, all over small frame counts and payloads with every length/range/maxlen symbolic, plus out_range with concrete frame lengths on both sides of the 251/252 length-code boundary and 1275', '2/C07'),
 'C11': ('ctl lattice: per request, any int32 value on any (havocked) encoder/decoder state: accepted iff legal, stored and read back, rejection with the documented error leaves every byte unchanged, unknown requests unimplemented, null getters rejected; honouring in the bitstream is not claimed here', '2/C11'),
 'C02': ('symbol-layer lock-step: real SILK index encoder vs real decoder over a tape coder for every legal index value (per fs/sub-frame/conditional-coding case), and TOC synthesis read back by the inspection helpers; the packetisation glue, the per-frame glue (real opus_encode_frame_native with synth SILK/CELT: TOC, redundancy placement, NaN guard) and multistream concatenation with stubbed stream encoders; the SILK/CELT frame coders themselves are not claimed', '2/C02 and 7.2a'),
 'C10': ('layout validation and channel lookup vs a direct specification, ambisonics channel-count rule, demixing x mixing == gain-scaled identity for the built-in orders (exact integer arithmetic, symbolic cell), saturating 16-bit projection accumulation, decoder channel routing with stubbed stream decoders, and the encoder-side per-stream budget split and packing (real opus_multistream_encode_native, stream encoder stubbed) incl. the self-delimited size accounting; surround layout tables not claimed', '2/C10 and 7.2a'),
 'C12': ('state bytes after init are independent of previous memory contents and of the object address (whole decoder object; encoder per sub-state), init and reset stay inside the size-query bytes, and OPUS_RESET_STATE from an arbitrary signal history with arbitrary settings leaves every byte equal to a freshly initialised object with those settings (decided per sub-state and composed through pointer-recording stubs); determinism of later encode/decode calls follows only because the codec has no other mutable storage and is not itself executed', '2/C12'),
 'C19': ('soft clipper: in-range input with cleared memory is bit-for-bit untouched, degenerate arguments touch nothing, and for excursions whose samples all saturate at +-2 (any larger magnitude incl. infinities) the output stays in [-1,1] without sign flips, the memory is the coefficient still in force at the end of the call (cleared after an in-range frame, previous curve continued without leaving [-1,1]), all for frames of 1-4 samples; general excursions, channel independence and the decoder gain law gave no solver verdict and are not claimed', '2/C19'),
 'C05': ('packetisation glue of the encoder (opus_encode_native, frame encoder stubbed) from any state satisfying the written invariant: result in [1,max_data_bytes] or a documented error, no store at or behind data[max_data_bytes], CBR budget == round(bitrate x duration / 8) clipped to [1,min(max,1276)] incl. AUTO/MAX, padding to the CBR size for low-budget and repacketised packets, two bytes always suffice; the per-frame glue below it (real opus_encode_frame_native and range encoder, synth SILK/CELT that may overrun: result in [1,budget], no store behind the budget, redundant frame inside the packet, CBR fills the budget) and the multistream per-stream split (exact CBR size, no stream starved, repacketizer never short of room); that the real frame coders keep to their budget and constrained-VBR averages are not claimed', '2/C05 and 7.2a'),
 'C15': ('the SSE4.1 LTP codebook search silk_VQ_WMat_EC_sse4_1 (real source over plain-C lane models validated against the host CPU) returns bit-identical results to silk_VQ_WMat_EC_c for every int32 input, per real codebook row, and keeps the same entry on exact ties; all other dispatched kernels are outside the claim', '2/C15 and 7.2'),
 'C09': ('duration and placement contract of loss handling only: a concealment or FEC request of a multiple of 2.5 ms returns exactly that duration, anything else is rejected before decoding; FEC = concealment for the gap placed back to back + exactly one FEC decode of the first frame at frame_size - packet duration; pure concealment when no FEC can be present; last_packet_duration updated; LBRR flag positions; level, decay, FEC accuracy and re-convergence of the audio are not claimed', '2/C09 and 7.2'),
 'C08': ('range coder round trips, accounting invariant (inductive) and termination lemma decided over all parameters within small buffer/sequence bounds', '2/C08'),
}
NA = {
 'C03': 'needs the absent RFC 6716 reference decoder/test vectors and equivalence of float synthesis over thousands of samples; no bounded symbolic encoding within reach (DESIGN 2/C03)',
 'C04': 'float end-to-end fidelity (SNR, per-band energy) through the complete encoder and decoder; no bounded symbolic encoding within reach (DESIGN 2/C04)',
 'C14': 'quantifies over thread interleavings of whole codec calls; CBMC cannot encode a codec call per thread, and the reducible remainder is a syntactic scan, not a solver verdict (DESIGN 2/C14)',
}
PENDING = {}
def main():
    props = [json.loads(l)['id'] for l in open(os.path.join(V, 'properties.jsonl'))]
    checks = []
    for pid in props:
        if pid in CLAIMS and os.path.exists(os.path.join(V, 'props', pid + '.py')):
            text, ref = CLAIMS[pid]
            checks.append(dict(property_id=pid, quick_cmd='python3 run.py %s --tier quick' % pid,
                               thorough_cmd='python3 run.py %s --tier thorough' % pid,
                               evidence_file='evidence/%s.json' % pid,
                               replay_cmd_template='python3 run.py %s --replay {path}' % pid,
                               engine='cbmc', level_claimed=dict(category='model_checking', text=text, design_ref='DESIGN.md ' + ref),
                               level_note=NOTE, technique=TECH))
    na = []
    for pid in props:
        if pid in [c['property_id'] for c in checks]:
            continue
        na.append(dict(property_id=pid, reason=NA.get(pid) or PENDING.get(pid) or 'check not built yet in this framework (planned, see DESIGN.md section 2); nothing is claimed for it'))
    m = dict(version=1,
             setup_cmd='python3 setup_check.py',
             hooks=dict(guard='XIPH_OPUS_VERIF', enable='checks compile /repo sources with goto-cc -DXIPH_OPUS_VERIF (no source hook is needed; the define is unused by the sources)',
                        baseline_off_cmd='cmake -G Ninja -S /repo -B /var/tmp/opus-baseline -DCMAKE_BUILD_TYPE=RelWithDebInfo -DOPUS_BUILD_TESTING=ON -DOPUS_HARDENING=ON && cmake --build /var/tmp/opus-baseline && ctest --test-dir /var/tmp/opus-baseline -j8 --timeout 900; rc=$?; rm -rf /var/tmp/opus-baseline; exit $rc',
                        source_commits=[], add_only=True),
             engines=[dict(name='cbmc', path='run.py', serves_properties=[c['property_id'] for c in checks],
                           kind_free_text='CBMC 6.11.0 bounded model checker (goto-cc front end on the real sources, kissat SAT back end), driver run.py')],
             checks=checks, not_applicable=na,
             notes='Four genuine defects were found and repaired in /repo with fix: commits (see known_findings.txt). Every claim is bounded; bounds and stubs are in DESIGN.md and in each evidence file.')
    json.dump(m, open(os.path.join(V, 'MANIFEST.json'), 'w'), indent=1)
    print('checks:', [c['property_id'] for c in checks], 'n/a:', [n['property_id'] for n in na])
if __name__ == '__main__':
    main()
