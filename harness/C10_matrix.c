/* C10-H5: for one built-in ambisonics order (-DORD=foa|soa|toa|fourthoa|fifthoa): the exported demixing matrix inverts the mixing
   matrix up to the stated gain: sum_k demix[i,k]*mix[k,j] (exact integer, Q30) is within EPS of EXPECT_DIAG*delta_ij for symbolic (i,j).
   EXPECT_DIAG = 2^30 * 10^(-gain/5120) is computed by the driver from the gain field in src/mapping_matrix.c. */
#include "common.h"
#include "arch.h"
#include "mapping_matrix.h"
#include "matrix_expect.h"          /* generated */
#define CAT(a,b,c) a##b##c
#define MIX(o)  CAT(mapping_matrix_,o,_mixing)
#define MIXD(o) CAT(mapping_matrix_,o,_mixing_data)
#define DMX(o)  CAT(mapping_matrix_,o,_demixing)
#define DMXD(o) CAT(mapping_matrix_,o,_demixing_data)
void harness(void){
  const MappingMatrix *mx=&MIX(ORD), *dx=&DMX(ORD);
  int n=mx->rows;
  VASSERT(mx->rows==mx->cols && dx->rows==dx->cols && dx->rows==n && n==NDIM,"square matrices of the order's channel count");
  VASSERT(mx->gain==0 && dx->gain==EXPECT_GAIN,"gain fields as scanned from the source");
  VASSERT(sizeof(MIXD(ORD))==sizeof(opus_int16)*NDIM*NDIM && sizeof(DMXD(ORD))==sizeof(opus_int16)*NDIM*NDIM,"data arrays hold rows*cols cells");
  int i=vt_range(0,NDIM-1), j=vt_range(0,NDIM-1);
  long long acc=0;
  for(int k=0;k<NDIM;k++) acc+=(long long)DMXD(ORD)[n*k+i]*MIXD(ORD)[n*j+k];     /* col-wise storage: cell(row,col)=data[rows*col+row] */
  long long want = (i==j)? EXPECT_DIAG : 0;
  long long d=acc-want; if(d<0) d=-d;
  VASSERT(d<=EPS,"demixing x mixing == gain-scaled identity within the quantisation tolerance");
  VWITNESS(i==j && i==NDIM-1);
}
