/* C02-H1: real silk_encode_indices -> real silk_decode_indices over a tape range coder: for EVERY legal SideInfoIndices value the
   decoder uses the same table at every position, consumes exactly what was produced and reconstructs identical indices and
   entropy-coding state. (fs_kHz, nb_subfr, condCoding) = case selector (-DFIX -DFIX_FS -DFIX_NB -DFIX_COND). The range coder itself is C08. */
#include "common.h"
#include "main.h"
/* ---- tape range coder ---- */
#define TAPE 64
static const unsigned char *t_tab[TAPE]; static unsigned t_ftb[TAPE]; static int t_sym[TAPE]; static int t_w, t_r;
void ec_enc_icdf(ec_enc *e,int s,const unsigned char *icdf,unsigned ftb){
  VASSERT(t_w<TAPE,"tape");
  VASSERT(s>=0,"symbol >=0");
  /* symbol must have non-zero probability and lie inside the table */
  VASSERT(s==0 ? icdf[0]<(1u<<ftb) : icdf[s]<icdf[s-1],"zero-probability symbol");
  t_tab[t_w]=icdf; t_ftb[t_w]=ftb; t_sym[t_w]=s; t_w++; }
int ec_dec_icdf(ec_dec *d,const unsigned char *icdf,unsigned ftb){
  VASSERT(t_r<t_w,"decoder reads past what encoder wrote");
  VASSERT(t_tab[t_r]==icdf && t_ftb[t_r]==ftb,"decoder uses the same table at the same position");
  return t_sym[t_r++]; }
void harness(void){
  static silk_encoder_state enc; static silk_decoder_state dec; static ec_enc re; static ec_dec rd;
  int wb=vt_int()&1; int fs=vt_int(); int nb=vt_int(); int cond=vt_int(); int lbrr=vt_int()&1;
  __CPROVER_assume(fs==8||fs==12||fs==16); __CPROVER_assume(wb==(fs==16)); __CPROVER_assume(nb==2||nb==4);
  __CPROVER_assume(cond==CODE_INDEPENDENTLY||cond==CODE_INDEPENDENTLY_NO_LTP_SCALING||cond==CODE_CONDITIONALLY);
#ifdef FIX
  __CPROVER_assume(fs==FIX_FS&&nb==FIX_NB&&cond==FIX_COND&&lbrr==0);
#endif
  const silk_NLSF_CB_struct *cb = wb? &silk_NLSF_CB_WB : &silk_NLSF_CB_NB_MB;
  enc.fs_kHz=dec.fs_kHz=fs; enc.nb_subfr=dec.nb_subfr=nb; enc.psNLSF_CB=dec.psNLSF_CB=cb; enc.predictLPCOrder=dec.LPC_order=cb->order;
  /* pitch tables as silk_control_encoder / silk_decoder_set_fs set them */
  const unsigned char *low = fs==16? silk_uniform8_iCDF : fs==12? silk_uniform6_iCDF : silk_uniform4_iCDF;
  const unsigned char *cont = fs==8 ? (nb==4? silk_pitch_contour_NB_iCDF: silk_pitch_contour_10_ms_NB_iCDF) : (nb==4? silk_pitch_contour_iCDF: silk_pitch_contour_10_ms_iCDF);
  enc.pitch_lag_low_bits_iCDF=dec.pitch_lag_low_bits_iCDF=low; enc.pitch_contour_iCDF=dec.pitch_contour_iCDF=cont;
  int pst=vt_int(); __CPROVER_assume(pst>=0&&pst<=2); enc.ec_prevSignalType=dec.ec_prevSignalType=pst;
  int pl=vt_short(); __CPROVER_assume(pl>=0&&pl< 32*(fs/2)); enc.ec_prevLagIndex=dec.ec_prevLagIndex=pl;
  SideInfoIndices *I = lbrr? &enc.indices_LBRR[0] : &enc.indices;
  I->signalType=vt_char(); I->quantOffsetType=vt_char();
  __CPROVER_assume(I->signalType>=0&&I->signalType<=2&&I->quantOffsetType>=0&&I->quantOffsetType<=1);
  __CPROVER_assume(!lbrr || I->signalType>=1);
  dec.VAD_flags[0] = I->signalType>=1;
  for(int k=0;k<4;k++){ I->GainsIndices[k]=vt_char(); I->LTPIndex[k]=vt_char(); }
  if(cond==CODE_CONDITIONALLY) __CPROVER_assume(I->GainsIndices[0]>=0&&I->GainsIndices[0]<=40); else __CPROVER_assume(I->GainsIndices[0]>=0&&I->GainsIndices[0]<64);
  for(int k=1;k<4;k++) __CPROVER_assume(I->GainsIndices[k]>=0&&I->GainsIndices[k]<=40);
  I->NLSFIndices[0]=vt_char(); __CPROVER_assume(I->NLSFIndices[0]>=0&&I->NLSFIndices[0]<cb->nVectors);
  for(int k=1;k<=16;k++){ I->NLSFIndices[k]=vt_char(); __CPROVER_assume(I->NLSFIndices[k]>=-10&&I->NLSFIndices[k]<=10); }
  I->NLSFInterpCoef_Q2=vt_char(); __CPROVER_assume(I->NLSFInterpCoef_Q2>=0&&I->NLSFInterpCoef_Q2<=4); if(nb!=4) __CPROVER_assume(I->NLSFInterpCoef_Q2==4);
  I->lagIndex=vt_short(); __CPROVER_assume(I->lagIndex>=0&&I->lagIndex<32*(fs/2));
  int ncont = fs==8? (nb==4?11:3) : (nb==4?34:12);
  I->contourIndex=vt_char(); __CPROVER_assume(I->contourIndex>=0&&I->contourIndex<ncont);
  I->PERIndex=vt_char(); __CPROVER_assume(I->PERIndex>=0&&I->PERIndex<3);
  for(int k=0;k<4;k++) __CPROVER_assume(I->LTPIndex[k]>=0&&I->LTPIndex[k]<(8<<I->PERIndex));
  I->LTP_scaleIndex=vt_char(); __CPROVER_assume(I->LTP_scaleIndex>=0&&I->LTP_scaleIndex<3); /* precondition of the encoder (silk_assert at encode_indices.c: !condCoding || LTP_scaleIndex==0; the only writer, silk_LTP_scale_ctrl_FLP, stores 0
     unless condCoding==CODE_INDEPENDENTLY) */
  if(cond!=CODE_INDEPENDENTLY) __CPROVER_assume(I->LTP_scaleIndex==0);
  I->Seed=vt_char(); __CPROVER_assume(I->Seed>=0&&I->Seed<4);
  SideInfoIndices want=*I;
  silk_encode_indices(&enc,&re,0,lbrr,cond);
  silk_decode_indices(&dec,&rd,0,lbrr,cond);
  VASSERT(t_r==t_w,"decoder consumed exactly what the encoder produced");
  SideInfoIndices *G=&dec.indices;
  VASSERT(G->signalType==want.signalType&&G->quantOffsetType==want.quantOffsetType,"type");
  for(int k=0;k<4;k++) if(k<nb) VASSERT(G->GainsIndices[k]==want.GainsIndices[k],"gains");
  for(int k=0;k<=16;k++) if(k<=cb->order) VASSERT(G->NLSFIndices[k]==want.NLSFIndices[k],"nlsf");
  VASSERT(G->NLSFInterpCoef_Q2==want.NLSFInterpCoef_Q2,"interp");
  if(want.signalType==TYPE_VOICED){
    VASSERT(G->lagIndex==want.lagIndex&&G->contourIndex==want.contourIndex&&G->PERIndex==want.PERIndex,"pitch");
    for(int k=0;k<4;k++) if(k<nb) VASSERT(G->LTPIndex[k]==want.LTPIndex[k],"ltp");
    VASSERT(G->LTP_scaleIndex==want.LTP_scaleIndex,"ltpscale");
    VASSERT(dec.ec_prevLagIndex==enc.ec_prevLagIndex,"prev lag");
  }
  VASSERT(G->Seed==want.Seed,"seed");
  VASSERT(dec.ec_prevSignalType==enc.ec_prevSignalType,"prev type");
  VWITNESS(want.signalType==TYPE_VOICED && t_w>=20);
}
