/* C10-H5b / C13-H3: mapping_matrix_multiply_channel_out_short accumulates one decoded stream channel into the 16-bit output
   channels: the result must saturate, never wrap, at the 16-bit limits; any matrix cell values, <= 3 rows, 1 sample. */
#include "common.h"
#include "arch.h"
#include "mapping_matrix.h"
#include "arch.h"
#include "float_cast.h"
void harness(void){
  struct { MappingMatrix m; opus_int16 pad_[2]; opus_int16 data[9]; } M;     /* data follows the aligned header as mapping_matrix_get_data expects */
  int rows=vt_range(1,3), cols=vt_range(1,3);
  M.m.rows=rows; M.m.cols=cols; M.m.gain=0;
  opus_int16 *cells=mapping_matrix_get_data(&M.m);
  for(int k=0;k<9;k++) cells[k]=vt_short();
  float in[3]; for(int k=0;k<3;k++){ in[k]=vt_float(); __CPROVER_assume(in[k]>=-4.f&&in[k]<=4.f); }
  opus_int16 out[3], old[3]; for(int k=0;k<3;k++){ out[k]=vt_short(); old[k]=out[k]; }
  int input_row=vt_range(0,2); __CPROVER_assume(input_row<cols);
  int input_rows=cols, output_rows=rows;
  mapping_matrix_multiply_channel_out_short(&M.m,in,input_row,input_rows,out,output_rows,1);
  int x=RES2INT16(in[0]);
  for(int r=0;r<3;r++){
    if(r<rows){ long long want=(long long)old[r]+((((long long)cells[rows*input_row+r]*x)+16384)>>15);
      if(want>32767) want=32767; if(want<-32768) want=-32768;
      VASSERT(out[r]==want,"16-bit projection output accumulates with saturation, never wraps"); }
    else VASSERT(out[r]==old[r],"rows beyond output_rows untouched");
  }
  VWITNESS(rows==3 && out[1]==32767);
}
