/* C15: the run-time-dispatched SSE4.1 LTP codebook search, silk_VQ_WMat_EC_sse4_1 (real silk/x86/VQ_WMat_EC_sse4_1.c compiled against the
   plain-C lane models in shim_sse/), against the portable silk_VQ_WMat_EC_c on identical arguments: any correlation matrix XX_Q17[25],
   any xX_Q17[5], any max_gain, subframe length 40/80; the codebook rows are the real constant LTP codebooks (flat copies generated from the
   current silk/tables_LTP.c), rows ROW..ROW+NROWS-1 of codebook CBK as the case selector.  Outputs must be bit-identical.
   Arithmetic is compared under wrap-around semantics (both kernels overflow identically for unconstrained inputs; overflow checks off). */
#include "common.h"
#include "main.h"
#include "tables.h"
#include "flat_ltp_tables.h"
void harness(void){
  opus_int32 XX[25], xX[5];
  for(int i=0;i<25;i++) XX[i]=vt_int();
  for(int i=0;i<5;i++) xX[i]=vt_int();
  int subfr=vt_range(0,1)?80:40;
  opus_int32 maxg=vt_int();
  opus_int8 i1=-1,i2=-1; opus_int32 n1=0,n2=0,r1=0,r2=0; int g1=0,g2=0;
#ifdef DUPROW
  /* tie-break: a two-entry codebook holding the real row ROW twice (every input ties): both kernels must keep the same one of two equal
     minima (the C kernel keeps the last) */
  opus_int8 cbd[10]; opus_uint8 cbgd[2], cld[2];
  for(int k=0;k<5;k++){ cbd[k]=cbd[5+k]=vt_flat_ltp_vq[CBK][5*ROW+k]; }
  cbgd[0]=cbgd[1]=vt_flat_ltp_gain[CBK][ROW]; cld[0]=cld[1]=vt_flat_ltp_bits[CBK][ROW];
  const opus_int8 *cb=cbd; const opus_uint8 *cbg=cbgd; const opus_uint8 *cl=cld; int L=2;
#else
  const opus_int8 *cb=vt_flat_ltp_vq[CBK]+5*ROW; const opus_uint8 *cbg=vt_flat_ltp_gain[CBK]+ROW; const opus_uint8 *cl=vt_flat_ltp_bits[CBK]+ROW; int L=NROWS;
#endif
  silk_VQ_WMat_EC_c(&i1,&n1,&r1,&g1,XX,xX,cb,cbg,cl,subfr,maxg,L);
  silk_VQ_WMat_EC_sse4_1(&i2,&n2,&r2,&g2,XX,xX,cb,cbg,cl,subfr,maxg,L);
  VASSERT(i1==i2,"SSE4.1 kernel selects the same codebook index as the C kernel");
  VASSERT(n1==n2 && r1==r2,"... the same residual energy and rate-distortion value");
  VASSERT(g1==g2,"... and the same gain");
  #ifdef DUPROW
  VWITNESS(i1==1 && r1!=0);
#else
  VWITNESS(i1==NROWS-1 && r1!=0);
#endif
}
