/* C18-H3/H6: silk_decode_parameters from any decoder state satisfying the set_fs invariant, with any index values that
   silk_decode_indices can produce (C01-H5 establishes that range). Real: gains dequant, interpolation, decode_pitch,
   LTP/LTP-scale table reads. Contract stubs: silk_NLSF_decode (post = C18-H1/H2), silk_NLSF2A (pre asserted), silk_bwexpander. */
#include "common.h"
#include "main.h"
#include "tables.h"
static const silk_NLSF_CB_struct *g_cb; static int g_n2a;
static int nlsf_ok(const opus_int16 *x,int L,int strict){
  if(x[0]<0) return 0;
  for(int i=1;i<16;i++) if(i<L){ if(strict? x[i]-x[i-1]<g_cb->deltaMin_Q15[i] : x[i]<x[i-1]) return 0; }
  if(strict && (x[0]<g_cb->deltaMin_Q15[0] || x[L-1]>32768-g_cb->deltaMin_Q15[L])) return 0;
  return x[L-1]<=32767;
}
void silk_NLSF_decode(opus_int16 *out, opus_int8 *idx, const silk_NLSF_CB_struct *cb){
  VASSERT(cb==g_cb,"codebook of the decoder state");
  VASSERT(idx[0]>=0&&idx[0]<cb->nVectors,"first-stage index in the codebook");
  for(int i=0;i<16;i++) if(i<cb->order){ VASSERT(idx[i+1]>=-10&&idx[i+1]<=10,"residual index in [-10,10]"); out[i]=vt_short(); }
  __CPROVER_assume(nlsf_ok(out,cb->order,1));
}
void silk_NLSF2A(opus_int16 *a, const opus_int16 *NLSF, const opus_int d, int arch){
  VASSERT(d==g_cb->order,"order");
  VASSERT(nlsf_ok(NLSF,d,0),"NLSF2A input: every coefficient in [0,32767] and non-decreasing (cos-table index in range)");
  for(int i=0;i<16;i++) if(i<d) a[i]=vt_short();
  g_n2a++;
}
#ifdef STUB_PITCH
/* contract stub; the real silk_decode_pitch meets it by C18_pitch.c (H6) */
void silk_decode_pitch(opus_int16 lagIndex, opus_int8 contourIndex, opus_int pitch_lags[], const opus_int Fs_kHz, const opus_int nb_subfr){
  int ncont = Fs_kHz==8? (nb_subfr==4?11:3) : (nb_subfr==4?34:12);
  VASSERT(contourIndex>=0&&contourIndex<ncont,"decode_pitch pre: contour index inside the codebook for (fs, nb_subfr)");
  VASSERT((Fs_kHz==8||Fs_kHz==12||Fs_kHz==16)&&(nb_subfr==2||nb_subfr==4),"decode_pitch pre: fs, nb_subfr");
  for(int k=0;k<4;k++) if(k<nb_subfr) pitch_lags[k]=vt_range(2*Fs_kHz,18*Fs_kHz);
}
#endif
void silk_bwexpander(opus_int16 *ar, const opus_int d, opus_int32 chirp){ for(int i=0;i<16;i++) if(i<d) ar[i]=vt_short(); }
void harness(void){
  static silk_decoder_state dec; static silk_decoder_control ctl;   /* zero-initialised statics (a 4 KB memset would need the mem wrapper's block loop) */
  int fs=vt_range(0,2); fs = fs==0?8:fs==1?12:16; int nb=vt_range(0,1)?4:2; int cond=vt_range(0,2);
#ifdef FIXFS
  __CPROVER_assume(fs==FIXFS && nb==FIXNB);   /* exhaustive case split over (fs, nb_subfr) */
#endif
  dec.fs_kHz=fs; dec.nb_subfr=nb; dec.psNLSF_CB = fs==16? &silk_NLSF_CB_WB : &silk_NLSF_CB_NB_MB; g_cb=dec.psNLSF_CB; dec.LPC_order=g_cb->order;
  dec.LastGainIndex=vt_char(); __CPROVER_assume(dec.LastGainIndex>=0&&dec.LastGainIndex<64);
  dec.first_frame_after_reset=vt_range(0,1); dec.lossCnt=vt_range(0,5);
  for(int i=0;i<16;i++) dec.prevNLSF_Q15[i]=vt_short();
  /* invariant: prevNLSF is the previous frame's stabilised vector unless the state was just reset */
  if(!dec.first_frame_after_reset) __CPROVER_assume(nlsf_ok(dec.prevNLSF_Q15,dec.LPC_order,1));
  SideInfoIndices *I=&dec.indices;
  I->signalType=vt_range(0,2); I->quantOffsetType=vt_range(0,1);
  for(int k=0;k<4;k++){ I->GainsIndices[k]=vt_range(0, (k==0&&cond!=CODE_CONDITIONALLY)?63:40); }
  I->NLSFIndices[0]=vt_range(0,31); for(int k=1;k<=16;k++) I->NLSFIndices[k]=vt_range(-10,10);
  I->NLSFInterpCoef_Q2=vt_range(0,4);
#ifdef FIXINTERP
  __CPROVER_assume(I->NLSFInterpCoef_Q2==FIXINTERP);   /* exhaustive case split */
#endif
  /* lagIndex as silk_decode_indices leaves it: absolute 0..32*fs/2+(fs/2-1), or previous + delta in [-8,11] */
  I->lagIndex=vt_short(); __CPROVER_assume(I->lagIndex>=-8 && I->lagIndex<=32*(fs/2)+fs/2-1+11);
  int ncont = fs==8? (nb==4?11:3) : (nb==4?34:12);
  I->contourIndex=vt_range(0,ncont-1);
  I->PERIndex=vt_range(0,2); for(int k=0;k<4;k++) I->LTPIndex[k]=vt_range(0,(8<<I->PERIndex)-1);
  I->LTP_scaleIndex=vt_range(0,2); I->Seed=vt_range(0,3);
  int interp=I->NLSFInterpCoef_Q2, ffar=dec.first_frame_after_reset, st=I->signalType;
  silk_decode_parameters(&dec,&ctl,cond);
  VASSERT(dec.LastGainIndex>=0&&dec.LastGainIndex<64,"gain state stays in range");
  for(int k=0;k<4;k++) if(k<nb) VASSERT(ctl.Gains_Q16[k]>=65536,"gains >= 1.0 Q16");
  VASSERT(g_n2a==((interp<4&&!ffar)?2:1),"one NLSF->LPC conversion per distinct NLSF vector");
  VASSERT(nlsf_ok(dec.prevNLSF_Q15,dec.LPC_order,1),"state invariant re-established: prevNLSF is a stabilised vector");
  if(st==TYPE_VOICED){
    int minl=2*fs, maxl=18*fs;
    for(int k=0;k<4;k++) if(k<nb) VASSERT(ctl.pitchL[k]>=minl&&ctl.pitchL[k]<=maxl,"pitch lag inside [2 ms, 18 ms] at the internal rate");
    VASSERT(ctl.LTP_scale_Q14>=8192&&ctl.LTP_scale_Q14<=15565,"LTP scale from its 3-entry table");
    /* LTP coefficient values are not asserted here: the codebooks are 2-D byte arrays read through a flat pointer with a
       symbolic index (cbmc simplifier bug, see run.py); the reads themselves are bounds-checked against the real tables */
  } else {
    for(int k=0;k<4;k++) if(k<nb) VASSERT(ctl.pitchL[k]==0,"unvoiced: lags cleared");
  }
  VWITNESS(st==TYPE_VOICED && !ffar);
}
