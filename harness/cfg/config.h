/* The pinned cmake build passes every option as -D on the command line; its generated
   config.h is empty.  This stand-in keeps the checks independent of /repo/_build. */
