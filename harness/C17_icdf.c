/* C17-H4: every static inverse-CDF table in silk/ and celt/ (list generated from the sources at run time):
   each maximal run (1-D tables may concatenate several ICDFs; 2-D tables hold one per row) is strictly decreasing and ends with a 0 inside the array, so every
   (sub-)table start the codec uses yields a valid, terminated ICDF. Symbolic index => one query per table. */
#include "common.h"
#include "main.h"
#include "celt.h"
#include "icdf_includes.h"     /* generated: #include of every .c file that defines a static table */
#define CHECK(name, n) do{ const unsigned char *A=(const unsigned char*)(name); int i=vt_range(0,(n)-1); \
   VASSERT(sizeof(name)==(n),"declared size as scanned"); \
   if(i==(n)-1) VASSERT(A[i]==0, #name ": last entry is 0"); \
   else VASSERT(A[i]==0 || A[i]>A[i+1], #name ": strictly decreasing up to its 0"); cnt++; }while(0)
/* 2-D tables: one ICDF per row, indexed directly (cbmc 6.11 mis-reads 2-D byte arrays through flat/row pointers) */
#define CHECK2(name, R, C) do{ int r=vt_range(0,(R)-1), c=vt_range(0,(C)-1); \
   if(c==(C)-1) VASSERT(name[r][c]==0, #name ": last entry of every row is 0"); \
   else VASSERT(name[r][c]==0 || name[r][c]>name[r][c+1], #name ": every row strictly decreasing up to its 0"); cnt++; }while(0)
#define CHECK_FIRST(name, ftb) VASSERT(((const unsigned char*)(name))[0] < (1u<<(ftb)) || (ftb)==8, #name ": first entry below 2^ftb")
void harness(void){
  int cnt=0;
#include "icdf_checks.h"       /* generated: one CHECK(name,size) per table */
  VWITNESS(cnt>=20);
}
