/* C16-H2: generate -> parse round trip for any list of NE extensions over NF frames (ids 3..127; short ids carry 0..1
   payload bytes, long ids 0..MAXL bytes): dry-run size == written size, exact size suffices, one byte less is refused without
   an outside write, parse/count/count_ext agree and return the same per-frame sequences with identical payloads. */
#include "common.h"
#include "extensions.c"
#ifndef MAXL
#define MAXL 2
#endif
#define OUTMAX (NE*(3+MAXL)+8)
void harness(void){
  opus_extension_data in[NE]; unsigned char pay[NE][MAXL?MAXL:1];
  int nf=vt_range(1,NF);
  for(int i=0;i<NE;i++){
    in[i].id=vt_range(3,127); in[i].frame=vt_range(0,NF-1); __CPROVER_assume(in[i].frame<nf);
    in[i].len=vt_range(0,MAXL); if(in[i].id<32) __CPROVER_assume(in[i].len<=1);
    for(int j=0;j<MAXL;j++) pay[i][j]=vt_uchar();
    in[i].data=pay[i];
  }
  int pad=0;
  opus_int32 n0=opus_packet_extensions_generate(NULL,OUTMAX,in,NE,nf,pad);
  VASSERT(n0>0 && n0<=OUTMAX,"dry run succeeds and reports a size");
  unsigned char buf[OUTMAX+1]; unsigned char guard=vt_uchar();
  for(int i=0;i<=OUTMAX;i++) buf[i]=guard;       /* fixed-size object: a symbolic-size one makes the run intractable */
  opus_int32 n1=opus_packet_extensions_generate(buf,n0,in,NE,nf,pad);
  VASSERT(n1==n0,"exact-size buffer suffices and the written size equals the dry-run size");
  { int k=vt_range(0,OUTMAX); if(k>=n0) VASSERT(buf[k]==guard,"nothing written at or beyond the reported size"); }
#ifdef WITH_SMALL
  { unsigned char small[OUTMAX+1]; for(int i=0;i<=OUTMAX;i++) small[i]=guard;
    opus_int32 n2=opus_packet_extensions_generate(small,n0-1,in,NE,nf,pad);
    VASSERT(n2==OPUS_BUFFER_TOO_SMALL,"one byte less is refused");
    int k=vt_range(0,OUTMAX); if(k>=n0-1) VASSERT(small[k]==guard,"a refused call writes nothing outside the buffer it was given"); }
#endif
  opus_extension_data out[NE+1]; opus_int32 cnt=NE+1;
  int r=opus_packet_extensions_parse(buf,n0,out,&cnt,nf);
  VASSERT(r==0 && cnt==NE,"parse succeeds and returns as many extensions as were generated");
#ifdef WITH_COUNT
  VASSERT(opus_packet_extensions_count(buf,n0,nf)==NE,"count agrees");
  { opus_int32 per[NF]; VASSERT(opus_packet_extensions_count_ext(buf,n0,per,nf)==NE,"count_ext total agrees");
    for(int f=0;f<NF;f++) if(f<nf){ int c=0; for(int i=0;i<NE;i++) c+=(in[i].frame==f); VASSERT(per[f]==c,"per-frame count agrees"); } }
#endif
  /* per-frame order and payloads: the k-th extension of frame f in the output is the k-th extension of frame f in the input */
  for(int f=0;f<NF;f++) if(f<nf){
    int io=0;
    for(int i=0;i<NE;i++) if(in[i].frame==f){
      while(io<NE && out[io].frame!=f) io++;
      VASSERT(io<NE,"every generated extension is parsed back in its frame");
      if(io<NE){
        VASSERT(out[io].id==in[i].id && out[io].len==in[i].len,"same id and length, in per-frame order");
        VASSERT(out[io].data>=buf && out[io].data+out[io].len<=buf+n0,"parsed payload lies inside the buffer");
        for(int j=0;j<MAXL;j++) if(j<in[i].len) VASSERT(out[io].data[j]==pay[i][j],"identical payload bytes");
        io++;
      }
    }
  }
  VWITNESS(nf==NF && (NE==1 || in[0].frame!=in[NE-1].frame) && in[0].id>=32);
}
