/* C08-H2/H3: bounded range-coder round trip through the real encoder and decoder.
   Operation kinds fixed per position by -DKSEQ=a,b,c (case split), parameters and buffer size symbolic.
   kinds: 0 ec_encode(ft const FT) 1 bit_logp 2 enc_bits 3 enc_uint(ft const FT) 4 encode_bin 5 icdf(symbolic 3-entry table)
   -DK=n -DBUF=n [-DFT=n] [-DPATCH] [-DSHRINK] */
#include "common.h"
#include "entenc.h"
#include "entdec.h"
#include "entcode.h"
#ifndef FT
#define FT 7
#endif
static const int KINDS[]={KSEQ};
void harness(void){
  unsigned size=vt_uint(); __CPROVER_assume(size>=1 && size<=BUF);
  unsigned char store[BUF+2]; unsigned char *buf=store+1;     /* guard bytes on both sides */
  unsigned char g0=vt_uchar(), g1=vt_uchar(); store[0]=g0; 
  for(int i=0;i<BUF+1;i++) store[1+i]=g1;
  unsigned a[K], b[K], c[K]; unsigned char tabs[4*K]; /* flat: cbmc 6.11 mis-reads rows of a 2-D local array through a pointer */
#define TAB(i) (tabs+4*(i))
  ec_enc enc; ec_dec dec;
  opus_uint32 etell[K], efrac[K], erng[K];
  ec_enc_init(&enc, buf, size);
  opus_uint32 lastfrac=ec_tell_frac(&enc);
  for(int i=0;i<K;i++){
    a[i]=vt_uint(); b[i]=vt_uint(); c[i]=vt_uint();
    switch(KINDS[i]){
      case 0: c[i]=FT; __CPROVER_assume(a[i]<b[i] && b[i]<=c[i]); ec_encode(&enc,a[i],b[i],c[i]); break;
      case 1: __CPROVER_assume(a[i]<=1 && b[i]>=1 && b[i]<=15); ec_enc_bit_logp(&enc,a[i],b[i]); break;
      case 2: __CPROVER_assume(b[i]>=1 && b[i]<=25 && a[i] < (1u<<b[i])); ec_enc_bits(&enc,a[i],b[i]); break;
      case 3: b[i]=FT; __CPROVER_assume(a[i]<b[i]); ec_enc_uint(&enc,a[i],b[i]); break;
      case 4: __CPROVER_assume(c[i]>=1 && c[i]<=15 && a[i]<b[i] && b[i]<=(1u<<c[i])); ec_encode_bin(&enc,a[i],b[i],c[i]); break;
      case 5: { /* valid icdf table: strictly decreasing, ends with 0, first < 2^ftb */
        TAB(i)[0]=vt_uchar(); TAB(i)[1]=vt_uchar(); TAB(i)[2]=vt_uchar(); TAB(i)[3]=0;
        __CPROVER_assume(b[i]>=1&&b[i]<=8);
        __CPROVER_assume(TAB(i)[0]<(1u<<b[i]) && TAB(i)[0]>TAB(i)[1] && TAB(i)[1]>TAB(i)[2] && TAB(i)[2]>0);
        __CPROVER_assume(a[i]<=3);
        ec_enc_icdf(&enc,a[i],TAB(i),b[i]); break; }
    }
    etell[i]=ec_tell(&enc); efrac[i]=ec_tell_frac(&enc); erng[i]=enc.rng;
    VASSERT(efrac[i]>=lastfrac,"fractional bit count never decreases");
    VASSERT(efrac[i] <= (etell[i]<<3) && efrac[i]+8 > (etell[i]<<3),"whole count upper-bounds the fractional one consistently");
    lastfrac=efrac[i];
  }
#ifdef PATCH
  /* contract (entenc.h): the first pn bits were coded with power-of-two probabilities: op 0 is encode_bin(x,x+1,pn) */
  unsigned pv=vt_uint(), pn=c[0]; __CPROVER_assume(KINDS[0]==4 && pn<=8 && b[0]==a[0]+1 && pv<(1u<<pn));
  ec_enc_patch_initial_bits(&enc,pv,pn);
  a[0]=pv; b[0]=pv+1;               /* what the decoder must now see */
#endif
#ifdef SHRINK
  unsigned ns=vt_uint(); __CPROVER_assume(ns<=size && ns>=enc.offs+enc.end_offs);
  ec_enc_shrink(&enc,ns); unsigned dsize=ns;
#else
  unsigned dsize=size;
#endif
  int fits = ec_tell(&enc) <= 8*(int)dsize;
  ec_enc_done(&enc);
  VASSERT(store[0]==g0,"byte before the buffer untouched");
  for(int i=0;i<BUF+1;i++) if((unsigned)i>=size) VASSERT(store[1+i]==g1,"bytes after the buffer untouched");
#if !defined(SHRINK) && !defined(PATCH)
  if(fits) VASSERT(!enc.error,"tell <= 8*size at the end: finishing cannot fail");
#endif
  if(enc.error) return;
  ec_dec_init(&dec, buf, dsize);
  for(int i=0;i<K;i++){
    switch(KINDS[i]){
      case 0: { unsigned s=ec_decode(&dec,c[i]); VASSERT(s>=a[i] && s<b[i],"ec_decode returns a value inside the coded symbol"); ec_dec_update(&dec,a[i],b[i],c[i]); break; }
      case 1: { int s=ec_dec_bit_logp(&dec,b[i]); VASSERT(s==(int)a[i],"bit_logp decodes the coded bit"); break; }
      case 2: { unsigned s=ec_dec_bits(&dec,b[i]); VASSERT(s==a[i],"raw bits decode"); break; }
      case 3: { unsigned s=ec_dec_uint(&dec,b[i]); VASSERT(s==a[i],"uint decodes"); break; }
      case 4: { unsigned s=ec_decode_bin(&dec,c[i]); VASSERT(s>=a[i] && s<b[i],"decode_bin inside the coded symbol"); ec_dec_update(&dec,a[i],b[i],1u<<c[i]); break; }
      case 5: { int s=ec_dec_icdf(&dec,TAB(i),b[i]); VASSERT(s==(int)a[i],"icdf symbol decodes"); break; }
    }
    VASSERT(ec_tell(&dec)==(int)etell[i],"encoder and decoder agree on ec_tell");
    VASSERT(ec_tell_frac(&dec)==efrac[i],"encoder and decoder agree on ec_tell_frac");
    VASSERT(dec.rng==erng[i],"encoder and decoder agree on rng");
  }
  VASSERT(!dec.error,"decoder reports no error on an error-free stream");
  VWITNESS(size>=2);
}
