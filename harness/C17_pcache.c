/* C17-H5: the static bits-to-pulses cache of the 48 kHz mode, symbolic (LM+1, band, p):
   bits[p] == log2_frac(V(N,get_pulses(p)),BITRES)-1, V fits 32 bits, monotone; bits2pulses/pulses2bits consistent. */
#include "common.h"
#include "modes.c"
#include "cwrs.c"
#include "rate.h"
#include "log2_frac.h"
#define NDATA ((int)(sizeof(CELT_PVQ_U_DATA)/sizeof(CELT_PVQ_U_DATA[0])))
static int rowstart(int n){ return n>=15 ? NDATA : (int)(CELT_PVQ_U_ROW[n]-CELT_PVQ_U_DATA)+n; }
static int stored(int a,int b){ int lo=a<b?a:b, hi=a<b?b:a; return lo>=0 && lo<=14 && hi>=lo && hi<lo+(rowstart(lo+1)-rowstart(lo)); }
void harness(void){
  const CELTMode *m=&mode48000_960_120;
  int i=vt_range(0,4), j=vt_range(0,20);
  VASSERT(m->nbEBands==21 && m->maxLM==3,"mode shape");
  int idx=m->cache.index[i*m->nbEBands+j];
  int N=(m->eBands[j+1]-m->eBands[j])<<i>>1;
  VASSERT(idx>=-1 && idx<m->cache.size,"cache index in range");
  VASSERT((idx<0)==(N<1),"bands narrower than one coefficient pair have no cache entry (index -1)");
  if(idx<0) return;
  const unsigned char *cache=m->cache.bits+idx;
  int maxp=cache[0];
  VASSERT(maxp>=1 && maxp<=MAX_PSEUDO && idx+maxp<m->cache.size,"entry inside the bits table");
  int p=vt_range(1,40); __CPROVER_assume(p<=maxp);
  int K=get_pulses(p);
  VASSERT(K>=1 && K<=128,"pulse count in range");
  if(N>=2){
  VASSERT(stored(N,K)&&stored(N,K+1),"U(N,K), U(N,K+1) are inside the static table");
  unsigned long long V=(unsigned long long)CELT_PVQ_U(N,K)+CELT_PVQ_U(N,K+1);
  VASSERT(V<=0xFFFFFFFFull,"V(N,K) fits 32 bits for every (N,K) the cache admits");
  VASSERT(cache[p]==spec_log2_frac((unsigned)V,BITRES)-1,"cache bits == log2_frac(V(N,K))-1");
  }
  if(p>1) VASSERT(cache[p]>=cache[p-1],"cache is monotone non-decreasing");
  if(i>=1){ int LM=i-1;
    VASSERT(pulses2bits(m,j,LM,p)==cache[p]+1,"pulses2bits reads the cache");
    int q=bits2pulses(m,j,LM,pulses2bits(m,j,LM,p));
    VASSERT(q>=1&&q<=maxp && cache[q]==cache[p],"bits2pulses inverts pulses2bits (up to equal-cost entries)");
    int b=vt_range(0,2048); int q2=bits2pulses(m,j,LM,b);
    VASSERT(q2>=0&&q2<=maxp,"bits2pulses result inside the cache entry");
  }
  VWITNESS(i==4&&j==20&&p==3);
}
