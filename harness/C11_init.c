/* C11-H2: creation/initialisation argument validation for any (Fs, channels, application) and allocation failure.
   Sub-codec initialisers are stubs (they succeed or fail arbitrarily); opus_alloc may return NULL. */
#include "common.h"
#include "opus_encoder.c"
int silk_Get_Encoder_Size(opus_int *n){ *n=64; return 0; }
int celt_encoder_get_size(int ch){ return 64; }
static int g_silk_init, g_celt_init;
opus_int silk_InitEncoder(void *e,int arch,silk_EncControlStruct *s){ g_silk_init++; return nondet_int()&1; }
int celt_encoder_init(CELTEncoder *st, opus_int32 Fs, int ch, int arch){ g_celt_init++; return (nondet_int()&1)?OPUS_OK:OPUS_INTERNAL_ERROR; }
int celt_encoder_ctl(CELTEncoder *st, int request, ...){ return OPUS_OK; }
void tonality_analysis_init(TonalityAnalysisState *a, opus_int32 Fs){ }
int opus_select_arch(void){ return 0; }
static int legal(int Fs,int ch,int app){ return (Fs==8000||Fs==12000||Fs==16000||Fs==24000||Fs==48000)&&(ch==1||ch==2)&&(app==OPUS_APPLICATION_VOIP||app==OPUS_APPLICATION_AUDIO||app==OPUS_APPLICATION_RESTRICTED_LOWDELAY); }
void harness(void){
  int Fs=nondet_int(), ch=nondet_int(), app=nondet_int(); int err=12345;
  /* opus_encoder_get_size */
  int sz=opus_encoder_get_size(ch);
  VASSERT((sz>0)==(ch==1||ch==2),"size query: 0 for unsupported channel counts");
  OpusEncoder *st=opus_encoder_create(Fs,ch,app,&err);     /* malloc may fail in this harness (--malloc-may-fail) */
  if(!legal(Fs,ch,app)){ VASSERT(st==NULL && err==OPUS_BAD_ARG,"unsupported rate/channels/application rejected with OPUS_BAD_ARG"); VASSERT(g_silk_init==0&&g_celt_init==0,"nothing initialised"); }
  else if(st==NULL) VASSERT(err==OPUS_ALLOC_FAIL||err==OPUS_INTERNAL_ERROR,"creation failure reports allocation failure or a failed sub-codec init");
  else { VASSERT(err==OPUS_OK,"success reports OPUS_OK"); VASSERT(st->Fs==Fs&&st->channels==ch&&st->application==app,"object carries the requested configuration");
         VASSERT(st->first==1&&st->use_vbr==1&&st->user_bitrate_bps==OPUS_AUTO&&st->lsb_depth==24&&st->force_channels==OPUS_AUTO&&st->user_bandwidth==OPUS_AUTO&&st->max_bandwidth==OPUS_BANDWIDTH_FULLBAND,"documented defaults");
         opus_encoder_destroy(st); }
  { OpusEncoder *t=opus_encoder_create(Fs,ch,app,NULL); if(t) opus_encoder_destroy(t); }   /* error pointer is optional */
  VWITNESS(st!=NULL);
}
