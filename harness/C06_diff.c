/* C06: real opus_packet_parse_impl vs. the RFC 6716 framing model on the same symbolic bytes.
   -DMAXLEN -DCODE=0..3 -DSD=0|1 [-DCOUNT=n] [-DVBRBIT=0|1] [-DWIT_COUNT=n] */
#include "common.h"
#include "opus.h"
#include "opus_private.h"
#include "rfc6716_framing.h"
void harness(void){
  int len=vt_range(0,MAXLEN);
#ifdef EXACT
  unsigned char *data=vt_alloc(len);            /* exact-size object: any over-read is a bounds failure */
#else
  unsigned char data[MAXLEN];                   /* fixed-size object (an exact-size one of up to 1600 bytes exhausts memory);
                                                   over-reads are C01-H1's job, on exact-size objects up to 64 bytes */
#endif
  VT_FILL(data,len,MAXLEN);
  if(len>0) __CPROVER_assume((data[0]&3)==CODE);
#ifdef COUNT
  if(len>1) __CPROVER_assume((data[1]&0x3F)==COUNT);
#endif
#ifdef VBRBIT
  if(len>1) __CPROVER_assume(((data[1]>>7)&1)==VBRBIT);
#endif
  unsigned char toc=0; const unsigned char *fr[48]; opus_int16 sz[48]; int po=-1; opus_int32 pko=-1; const unsigned char *pad=0; opus_int32 padlen=-1;
  int ret=opus_packet_parse_impl(data,len,SD,&toc,fr,sz,&po,&pko,&pad,&padlen);
  rfc_pkt m=rfc_parse(data,len,SD);
  VASSERT((ret>0)==(m.valid!=0),"accepted iff RFC 6716 framing rules hold");
  VASSERT(ret==OPUS_INVALID_PACKET||ret>0,"only OPUS_INVALID_PACKET as error for len>=0");
  if(ret>0){
    VASSERT(ret==m.count && toc==m.toc,"frame count and TOC as the RFC defines");
    VASSERT(po==m.payload_off,"payload offset");
    VASSERT(pko==m.consumed,"consumed length (packet_offset)");
    VASSERT(padlen==m.pad_total,"padding length");
    VASSERT(pko<=len && po<=len,"offsets inside input");
    for(int i=0;i<48;i++) if(i<ret){
      VASSERT(sz[i]==m.size[i],"frame size");
      VASSERT(fr[i]==data+m.frame_off[i],"frame offset");
      VASSERT(sz[i]>=0 && sz[i]<=1275 && m.frame_off[i]+sz[i]<=len,"frame inside input, <=1275 bytes");
    }
    VASSERT(pad==data+m.frame_off[ret-1]+m.size[ret-1],"padding pointer");
    VASSERT(ret*rfc_frame_48k(toc)<=5760,"at most 120 ms");
  }
#ifdef WIT_COUNT
  VWITNESS(ret==WIT_COUNT);
#else
  VWITNESS(ret>0);
#endif
}
