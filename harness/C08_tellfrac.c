/* C08-H1: ec_tell_frac (table form) == the squaring-loop definition, for every normalised rng;
   whole/fractional consistency. */
#include "common.h"
#include "entcode.h"
#include "mfrngcod.h"
static opus_uint32 ref_tell_frac(ec_ctx *_this){
  opus_uint32 nbits; opus_uint32 r; int l; int i;
  nbits=_this->nbits_total<<BITRES;
  l=EC_ILOG(_this->rng);
  r=_this->rng>>(l-16);
  for(i=BITRES;i-->0;){ int b; r=r*r>>15; b=(int)(r>>16); l=l<<1|b; r>>=b; }
  return nbits-l;
}
void harness(void){
  ec_ctx c; memset(&c,0,sizeof c);
  c.rng=vt_uint(); c.nbits_total=vt_int();
  __CPROVER_assume(c.rng>EC_CODE_BOT && c.rng<=EC_CODE_TOP);           /* normalised */
  __CPROVER_assume(c.nbits_total>=33 && c.nbits_total<=(1<<20));      /* 33 = value after init; 2^20 bits >> any packet */
  opus_uint32 f=ec_tell_frac(&c);
  VASSERT(f==ref_tell_frac(&c),"ec_tell_frac == reference definition");
  int t=ec_tell(&c);
  VASSERT(t>=1,"tell positive");
  VASSERT(f <= ((opus_uint32)t<<3) && f+8 > ((opus_uint32)t<<3),"8*tell-7 <= tell_frac <= 8*tell");
  VWITNESS(f==(opus_uint32)t*8-3);
}
