/* C01-H3 / C09 / C20-H4: the per-frame glue of the decoder, opus_decode_frame (static in src/opus_decoder.c), with the real range
   decoder on the real packet bytes and synth stubs for the synthesis:
     silk_Decode               writes exactly nSamplesOut x channels samples at samplesOut (10 ms when payloadSize_ms==10, else 20 ms, at the
                               API rate - what silk/dec_API.c produces), may fail, leaves the range decoder in any consistent state
     celt_decode_with_ec(_dred) reads data[0..len), writes frame_size x channels samples at pcm, returns frame_size or an error
     smooth_fade               touches overlap x channels samples of its three buffers
     celt_decoder_ctl, silk_ResetDecoder: recording / no-op
   Asserted: every region a stub touches lies inside the caller's exact-size pcm buffer or inside the scratch arrays the function allocates
   (bounds checks); redundancy split keeps the CELT part inside the packet; the returned duration follows the rule C01_native.c's stub
   assumes; concealment never decodes more than st->frame_size for DTX payloads; rangeFinal == 0 for DTX/PLC.
   -DFSI (rate index) ; decode_gain == 0 (the gain law needs libm exp and is outside the claim).
   -DGAIN (C19-H5): decode_gain is any non-zero value, exp() returns an arbitrary positive factor G, frames and requests are at most 10 ms.
   The synth stubs write 0.5 at both ends of the region they produce and the cross-fade stub starts at its first input and ends at its
   second; asserted: the first and the last sample of the returned frame are exactly 0.5*G - the gain is applied once, to the whole
   frame, whatever the mode history (transitions, redundancy, concealment). */
#include "common.h"
#define smooth_fade smooth_fade_REAL
#include "opus_decoder.c"
#undef smooth_fade
static float *g_pcm; static int g_cap, g_ch, g_Fs;
static int g_silk_calls, g_celt_calls, g_plc_celt, g_last_celt_fs;
static const unsigned char *g_pkt; static int g_pktlen;
static CELTMode g_mode; static float g_window[120];
/* a region [p, p+n) of floats is acceptable if it lies inside the caller buffer; scratch VLAs are separate objects whose bounds cbmc checks on the touch */
static void touch(float *p,int n){ if(n>0){ p[0]=0.5f; p[n-1]=0.5f; } }
#ifdef GAIN
static float g_G; static int g_exp_calls;
double exp(double x){ g_exp_calls++; return (double)g_G; }
#endif
opus_int silk_Decode(void *decState, silk_DecControlStruct *dc, opus_int lostFlag, opus_int newPacketFlag, ec_dec *rd, opus_res *out, opus_int32 *nOut, int arch){
  g_silk_calls++;
  VASSERT(dc->API_sampleRate==g_Fs && dc->nChannelsAPI==g_ch,"SILK is told the API rate and channels");
  VASSERT(dc->payloadSize_ms==10||dc->payloadSize_ms==20||dc->payloadSize_ms==40||dc->payloadSize_ms==60,"SILK payload size is 10/20/40/60 ms");
  if(lostFlag==0||lostFlag==2) VASSERT(dc->internalSampleRate==8000||dc->internalSampleRate==12000||dc->internalSampleRate==16000,"SILK internal rate set for a packet");
  int n = dc->payloadSize_ms==10 ? g_Fs/100 : g_Fs/50;
  int fail=vt_range(0,1);
  if(fail){ *nOut=vt_int(); return -1; }
  touch(out,n*g_ch);                      /* SILK writes a whole 10 or 20 ms frame: the caller must have handed it room for that */
  *nOut=n;
  /* the range decoder has been advanced by an arbitrary amount */
  if(lostFlag!=1){ int adv=vt_range(0,400); rd->nbits_total+=adv; unsigned rng=vt_uint(); __CPROVER_assume(rng>(1u<<23)); rd->rng=rng; unsigned v=vt_uint(); __CPROVER_assume(v<rng); rd->val=v; }
  return 0; }
int celt_decode_with_ec_dred(CELTDecoder *st, const unsigned char *data, int len, opus_res *pcm, int frame_size, ec_dec *dec, int accum){
  g_celt_calls++; g_last_celt_fs=frame_size;
  VASSERT(frame_size==g_Fs/400||frame_size==g_Fs/200||frame_size==g_Fs/100||frame_size==g_Fs/50,"CELT is asked for 2.5, 5, 10 or 20 ms");
  if(data){ VASSERT(len>=0,"CELT payload length not negative"); if(len>0){ unsigned char a=data[0], b=data[len-1]; (void)a; (void)b; VASSERT(data>=g_pkt && data+len<=g_pkt+g_pktlen || len==2,"CELT payload lies inside the packet (or is the 2-byte silence frame)"); } } else g_plc_celt++;
  int e=vt_range(0,2); if(e==1) return OPUS_BAD_ARG; if(e==2) return OPUS_INTERNAL_ERROR;
  touch(pcm,frame_size*g_ch);
  return frame_size; }
int celt_decode_with_ec(CELTDecoder *st, const unsigned char *data, int len, opus_res *pcm, int frame_size, ec_dec *dec, int accum){ return celt_decode_with_ec_dred(st,data,len,pcm,frame_size,dec,accum); }
int celt_decoder_ctl(CELTDecoder *st, int request, ...){ va_list ap; va_start(ap,request);
  if(request==CELT_GET_MODE_REQUEST){ const CELTMode **v=va_arg(ap,const CELTMode**); g_mode.window=g_window; *v=&g_mode; }
  else if(request==OPUS_GET_FINAL_RANGE_REQUEST){ opus_uint32 *v=va_arg(ap,opus_uint32*); *v=vt_uint(); }
  else if(request==CELT_SET_END_BAND_REQUEST){ int v=va_arg(ap,opus_int32); VASSERT(v==13||v==17||v==19||v==21,"end band from the bandwidth table"); }
  else if(request==CELT_SET_START_BAND_REQUEST){ int v=va_arg(ap,opus_int32); VASSERT(v==0||v==17,"start band 0 or 17"); }
  else if(request==CELT_SET_CHANNELS_REQUEST){ int v=va_arg(ap,opus_int32); VASSERT(v==1||v==2,"stream channels 1 or 2"); }
  va_end(ap); return OPUS_OK; }
opus_int silk_ResetDecoder(void *s){ return 0; }
void stub_fade(const opus_res *in1, const opus_res *in2, opus_res *out, int overlap, int channels, const celt_coef *window, opus_int32 Fs){
  VASSERT(overlap==Fs/400 && channels==g_ch,"cross-fades are 2.5 ms long");
  float a=in1[0]+in1[overlap*channels-1]+in2[0]+in2[overlap*channels-1]; (void)a;
#ifdef GAIN
  { float f=in1[0], l=in2[overlap*channels-1]; out[0]=f; out[overlap*channels-1]=l; }      /* a cross-fade starts at its first input and ends at its second */
#else
  touch(out,overlap*channels);
#endif
}
static const int FSV[5]={8000,12000,16000,24000,48000};
#define FSMAX (FSI==0?8000:FSI==1?12000:FSI==2?16000:FSI==3?24000:48000)
void harness(void){
  struct { OpusDecoder d; char tail[64]; } S; OpusDecoder *st=&S.d;
  st->Fs=FSV[FSI]; g_Fs=st->Fs;
#ifdef CHSEL
  st->channels=CHSEL;
#else
  st->channels=vt_range(1,2);
#endif
  g_ch=st->channels;
  st->silk_dec_offset=sizeof(OpusDecoder); st->celt_dec_offset=sizeof(OpusDecoder)+32;
  st->DecControl.API_sampleRate=st->Fs; st->DecControl.nChannelsAPI=st->channels; st->arch=0; st->decode_gain=0; st->complexity=vt_range(0,10);
#ifdef GAIN
  st->decode_gain=vt_range(-32768,32767); __CPROVER_assume(st->decode_gain!=0);
  g_G=vt_float(); __CPROVER_assume(g_G>=0.0078125f && g_G<=128.f);
#endif
  st->stream_channels=vt_range(1,2);
  { int m=vt_range(1,3); st->mode = m==1?MODE_SILK_ONLY: m==2?MODE_HYBRID:MODE_CELT_ONLY; }
  { int m=vt_range(0,3); st->prev_mode = m==0?0: m==1?MODE_SILK_ONLY: m==2?MODE_HYBRID:MODE_CELT_ONLY; }
  st->prev_redundancy=vt_range(0,1);
  /* what opus_decode_native stores from the TOC: a legal (mode, bandwidth, frame duration) combination */
  st->bandwidth=vt_range(OPUS_BANDWIDTH_NARROWBAND,OPUS_BANDWIDTH_FULLBAND);
  __CPROVER_assume(st->mode!=MODE_SILK_ONLY || st->bandwidth<=OPUS_BANDWIDTH_WIDEBAND);
  __CPROVER_assume(st->mode!=MODE_HYBRID || st->bandwidth>=OPUS_BANDWIDTH_SUPERWIDEBAND);
  __CPROVER_assume(st->mode!=MODE_CELT_ONLY || st->bandwidth!=OPUS_BANDWIDTH_MEDIUMBAND);
  int F2_5=st->Fs/400, F5=2*F2_5, F10=4*F2_5, F20=8*F2_5;
  { int k=vt_range(0,5); st->frame_size = k==0?F2_5: k==1?F5: k==2?F10: k==3?F20: k==4?2*F20: 3*F20; }
  __CPROVER_assume(st->mode!=MODE_SILK_ONLY || st->frame_size>=F10);
  __CPROVER_assume(st->mode!=MODE_HYBRID || (st->frame_size==F10||st->frame_size==F20));
  __CPROVER_assume(st->mode!=MODE_CELT_ONLY || st->frame_size<=F20);
#ifdef GAIN
  __CPROVER_assume(st->frame_size<=F10);
#endif
  int len=vt_range(0,PL);
  VT_TAILBUF(pkt,len,PL);
  g_pkt=pkt; g_pktlen=len;
#ifdef PLCONLY
  int usenull=1; int fec=0;                 /* concealment requests only: no packet bytes reach the range decoder (quick tier) */
#else
  int usenull=vt_range(0,1); int fec=vt_range(0,1);
#endif
  int frame_size=vt_range(0,6*F20+3);
  /* stated bound: the "no packet decoded yet" path (prev_mode==0: a plain zero-fill loop over the request) only for requests up to 20 ms */
  __CPROVER_assume((st->prev_redundancy?MODE_CELT_ONLY:st->prev_mode)!=0 || frame_size<=F20);
#ifdef GAIN
  __CPROVER_assume(frame_size<=F10);
#endif
#ifdef PLCONLY
  /* quick-tier bound: requests up to 10 ms (+3 samples) */
  __CPROVER_assume(frame_size<=F10+3);
#endif
  g_cap=frame_size*st->channels; g_pcm=(float*)vt_alloc(sizeof(float)*g_cap);
  int fs0=st->frame_size, mode0=st->mode, pm0=st->prev_mode, pr0=st->prev_redundancy;
  int r=opus_decode_frame(st, usenull?(const unsigned char*)0:pkt, usenull?0:len, g_pcm, frame_size, fec);
  VASSERT(r==OPUS_BUFFER_TOO_SMALL||r==OPUS_BAD_ARG||r==OPUS_INTERNAL_ERROR||(r>0&&r<=frame_size),"documented error or 0 < n <= frame_size");
  if(frame_size<F2_5) VASSERT(r==OPUS_BUFFER_TOO_SMALL && g_silk_calls==0 && g_celt_calls==0,"less than 2.5 ms of room: refused, nothing decoded");
  int plc = usenull || len<=1;
  if(r>0){
    /* the duration rule (this is the contract of the stub in C01_native.c) */
    if(!plc) VASSERT(r==fs0,"a packet frame decodes to exactly the duration stored from its TOC");
    else {
      int req=frame_size; if(req>6*F20) req=6*F20; if(req>fs0) req=fs0;
      int pmode = pr0 ? MODE_CELT_ONLY : pm0;
      if(pmode==0 || req>=F20) VASSERT(r==req,"concealment before any packet / of 20 ms or more returns the request (capped by the last frame duration)");
      else if(req>F10) VASSERT(r==F10,"concealment between 10 and 20 ms is cut to 10 ms");
      else if(pmode!=MODE_SILK_ONLY && req>F5 && req<F10) VASSERT(r==F5,"CELT/hybrid concealment between 5 and 10 ms is cut to 5 ms");
      else VASSERT(r==req,"a legal concealment size is returned as requested");
      VASSERT(r<=fs0,"a DTX / lost frame is never concealed for longer than the last frame duration");
      VASSERT(st->rangeFinal==0,"final range is 0 for DTX / concealment");
    }
  }
#ifdef GAIN
  if(r>0 && g_silk_calls+g_celt_calls>0){
    VASSERT(g_exp_calls>=1,"a non-zero gain is applied");
    VASSERT(g_pcm[0]==0.5f*g_G,"first sample of the frame carries the gain exactly once");
    VASSERT(g_pcm[r*g_ch-1]==0.5f*g_G,"last sample of the frame carries the gain exactly once");
  }
  VWITNESS(r>0 && !plc && g_celt_calls>=1 && g_pcm[0]==0.5f*g_G && g_G==2.f);
#else
#ifdef PLCONLY
  VWITNESS(r>0 && plc && g_celt_calls>=1 && r==F5);
#else
  VWITNESS(r>0 && !plc && g_silk_calls>=1 && g_celt_calls>=1);
#endif
#endif
}
