/* C10-H6: the matrix-export ctls of the projection encoder on a constructed state: OPUS_PROJECTION_GET_DEMIXING_MATRIX copies, for every
   (input stream i, output channel j), cell (row j, column i) of the stored column-major demixing matrix - whose row count may exceed the number of
   exported channels (the built-in tables are 6/11/18/27/38 square, the exported part 4/9/16/25/36 wide) - little-endian, nothing else; the
   size ctl reports channels x (streams+coupled) x 2 and any other size is rejected without writing; the gain ctl reports the stored gain.
   Stored matrix: any rows in [channels, MAXR], any cells.  -DMAXR */
#include "common.h"
#include "opus_projection_encoder.c"
int opus_multistream_encoder_ctl_va_list(OpusMSEncoder *st, int request, va_list ap){ return OPUS_UNIMPLEMENTED; }
#define MAXC 3
typedef struct { OpusProjectionEncoder p; char pad0[8-sizeof(OpusProjectionEncoder)%8==8?0:8-sizeof(OpusProjectionEncoder)%8];
                 MappingMatrix mm; int padm; opus_int16 mdata[4];
                 MappingMatrix dm; int padd; opus_int16 ddata[MAXR*MAXR];
                 OpusMSEncoder ms; } proj_obj;
void harness(void){
  proj_obj S;
  S.p.mixing_matrix_size_in_bytes=(int)(offsetof(proj_obj,dm)-offsetof(proj_obj,mm));
  S.p.demixing_matrix_size_in_bytes=(int)(offsetof(proj_obj,ms)-offsetof(proj_obj,dm));
  OpusProjectionEncoder *st=&S.p;
  VASSERT((char*)get_enc_demixing_matrix(st)==(char*)&S.dm && (char*)get_multistream_encoder(st)==(char*)&S.ms && (char*)mapping_matrix_get_data(&S.dm)==(char*)S.ddata,"harness object layout == library layout");
  int ch=vt_range(1,MAXC), ns=vt_range(1,MAXC), nc=vt_range(0,MAXC); __CPROVER_assume(nc<=ns && ns+nc<=MAXC);
  S.ms.layout.nb_channels=ch; S.ms.layout.nb_streams=ns; S.ms.layout.nb_coupled_streams=nc;
  int rows=vt_range(1,MAXR), cols=vt_range(1,MAXR); __CPROVER_assume(rows>=ch && cols>=ns+nc);
  S.dm.rows=rows; S.dm.cols=cols; S.dm.gain=vt_int();
  for(int k=0;k<MAXR*MAXR;k++) S.ddata[k]=vt_short();
  int nin=ns+nc;
  opus_int32 sz=-1, g=-1;
  VASSERT(opus_projection_encoder_ctl(st,OPUS_PROJECTION_GET_DEMIXING_MATRIX_SIZE(&sz))==OPUS_OK && sz==ch*nin*2,"size ctl == channels x (streams+coupled) x 2 bytes");
  VASSERT(opus_projection_encoder_ctl(st,OPUS_PROJECTION_GET_DEMIXING_MATRIX_GAIN(&g))==OPUS_OK && g==S.dm.gain,"gain ctl == stored gain");
  unsigned char out[MAXC*MAXC*2+2]; unsigned char guard=vt_uchar(); for(int k=0;k<MAXC*MAXC*2+2;k++) out[k]=guard;
  int ask=vt_range(0,MAXC*MAXC*2+2);
  int r=opus_projection_encoder_ctl(st,OPUS_PROJECTION_GET_DEMIXING_MATRIX(out,ask));
  if(ask!=sz){ VASSERT(r==OPUS_BAD_ARG,"wrong size rejected"); int k=vt_range(0,MAXC*MAXC*2+1); VASSERT(out[k]==guard,"nothing written when rejected"); }
  else {
    VASSERT(r==OPUS_OK,"matching size accepted");
    int i=vt_range(0,MAXC-1), j=vt_range(0,MAXC-1);
    if(i<nin && j<ch){ int l=i*ch+j; opus_int16 cell=S.ddata[rows*i+j];
      VASSERT(out[2*l]==(unsigned char)cell && out[2*l+1]==(unsigned char)(cell>>8),"exported cell (stream i, channel j) == stored demixing cell (row j, column i), little-endian"); }
    int k=vt_range(0,MAXC*MAXC*2+1); if(k>=sz) VASSERT(out[k]==guard,"nothing written behind the reported size");
  }
  VWITNESS(r==OPUS_OK && rows>ch && nin>=2);
}
