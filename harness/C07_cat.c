/* C07-H1: one opus_repacketizer_cat (both framings via _impl) from ANY valid repacketizer state Inv(rp), any packet within the C06
   bounds: accepted iff RFC-valid, TOC-compatible and total <= 120 ms; state untouched on rejection; new slots equal the frames the
   RFC model reports; Inv preserved (so histories of any length). -DMAXLEN -DNB0MAX */
#include "common.h"
#include "opus.h"
#include "opus_private.h"
#include "rfc6716_framing.h"
#include "repacketizer.c"
#include "C07_ext_stub.h"
void harness(void){
  static OpusRepacketizer rp; static unsigned char old[8];
  int len=vt_range(0,MAXLEN);
  unsigned char data[MAXLEN?MAXLEN:1]; VT_FILL(data,len,MAXLEN);
#ifdef CODE
  if(len>0) __CPROVER_assume((data[0]&3)==CODE);
#endif
#ifdef COUNTMAX
  if(len>1) __CPROVER_assume((data[0]&3)!=3 || (data[1]&0x3F)<=COUNTMAX);
#endif
  /* any valid pre-state: nb0 frames already stored, consistent framesize */
  int nb0=vt_range(0,NB0MAX); rp.nb_frames=nb0; rp.toc=vt_uchar();
  rp.framesize=opus_packet_get_samples_per_frame(&rp.toc,8000);
  if(nb0>0) __CPROVER_assume(nb0*rp.framesize<=960);
  for(int i=0;i<NB0MAX;i++){ rp.len[i]=vt_range(0,1275); rp.frames[i]=old+(i&7); rp.paddings[i]=0; rp.padding_len[i]=0; rp.padding_nb_frames[i]=0; }
  int sd=vt_range(0,1);
  unsigned char toc0=rp.toc; int fs0=rp.framesize; opus_int16 l0=rp.len[0]; const unsigned char *f0=rp.frames[0];
  int k=vt_range(0,NB0MAX>0?NB0MAX-1:0); opus_int16 lk=rp.len[k]; const unsigned char *fk=rp.frames[k];
  int r=opus_repacketizer_cat_impl(&rp,data,len,sd);
  rfc_pkt m=rfc_parse(data,len,sd);
  int compat = nb0==0 || ((toc0&0xFC)==(data[0]&0xFC));
  int dur_ok = m.valid && (nb0==0 ? m.count*(rfc_frame_48k(data[0])/6)<=960 : (nb0+m.count)*fs0<=960);
  VASSERT((r==OPUS_OK)==(m.valid && compat && dur_ok),"accepted exactly when valid, configuration-compatible and at most 120 ms in total");
  VASSERT(r==OPUS_OK||r==OPUS_INVALID_PACKET,"documented results");
  if(r!=OPUS_OK){
    VASSERT(rp.nb_frames==nb0,"rejection leaves the frame count unchanged");
    if(nb0>0){ VASSERT(rp.toc==toc0&&rp.framesize==fs0,"rejection leaves the configuration unchanged"); if(k<nb0) VASSERT(rp.len[k]==lk&&rp.frames[k]==fk,"rejection leaves stored frames unchanged"); }
  } else {
    VASSERT(rp.nb_frames==nb0+m.count,"frame count grows by the packet's frames");
    VASSERT((rp.toc&0xFC)==(data[0]&0xFC) && rp.framesize*6==rfc_frame_48k(data[0]),"configuration recorded");
    if(nb0>0 && k<nb0) VASSERT(rp.len[k]==lk&&rp.frames[k]==fk,"earlier frames untouched");
    for(int i=0;i<48;i++) if(i<m.count){ VASSERT(rp.len[nb0+i]==m.size[i] && rp.frames[nb0+i]==data+m.frame_off[i],"new slots are the packet's frames, in order"); }
    VASSERT(rp.nb_frames>=1&&rp.nb_frames<=48&&rp.nb_frames*rp.framesize<=960,"Inv(rp) preserved");
  }
  #ifndef WITC
#define WITC 2
#endif
  VWITNESS(r==OPUS_OK && nb0>0 && m.count>=WITC);
}
