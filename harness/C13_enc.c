/* C13-H1: opus_encode / opus_encode24 / opus_encode_float hand bit-identical PCM, frame size and effective LSB depth to
   opus_encode_native when fed v, 256v, v/32768 (any int16 frame of minimum length, lsb_depth<=16), and the analysis downmix
   of the three raw buffers is bit-identical. opus_encode_native is replaced by a recorder. */
#include "common.h"
#define opus_encode_native opus_encode_native_REAL
#include "opus_encoder.c"
#undef opus_encode_native
#ifndef NS
#define NS 20            /* 2.5 ms at 8 kHz */
#endif
typedef struct { unsigned pcm[2*NS]; float dm[NS]; int frame_size, depth, asize, c1, c2, ach, float_api, out_bytes, n; const void *apcm; unsigned char *data; } rec_t;
static rec_t R[3]; static int g_k; static OpusEncoder *g_st;
static unsigned bits(float f){ unsigned u; memcpy(&u,&f,4); return u; }
opus_int32 rec_native(OpusEncoder *st, const opus_res *pcm, int frame_size, unsigned char *data, opus_int32 out_data_bytes, int lsb_depth,
      const void *analysis_pcm, opus_int32 analysis_size, int c1, int c2, int analysis_channels, downmix_func downmix, int float_api){
  rec_t *r=&R[g_k]; r->n++;
  VASSERT(st==g_st,"same encoder object");
  r->frame_size=frame_size; r->depth=IMIN(lsb_depth,st->lsb_depth); r->asize=analysis_size; r->c1=c1; r->c2=c2; r->ach=analysis_channels; r->float_api=float_api;
  r->apcm=analysis_pcm; r->data=data; r->out_bytes=out_data_bytes;
  for(int i=0;i<2*NS;i++) if(i<frame_size*st->channels) r->pcm[i]=bits(pcm[i]);
#ifndef NODM
  { opus_val32 y[NS]; int off=0; downmix(analysis_pcm,y,NS,off,c1,c2,analysis_channels); for(int j=0;j<NS;j++) r->dm[j]=y[j]; }
#endif
  return 7;
}
void harness(void){
  static OpusEncoder st; g_st=&st;
  st.Fs=8000; st.channels=CH;   /* case selector: a symbolic channel count makes the wrappers' scratch VLA a symbolic-size object */ st.variable_duration=OPUS_FRAMESIZE_ARG; st.lsb_depth=vt_range(8,16);
  int C=st.channels;
  opus_int16 p16[2*NS]; opus_int32 p24[2*NS]; float pf[2*NS]; unsigned char out[8];
  for(int i=0;i<2*NS;i++){ short v=vt_short(); p16[i]=v; p24[i]=(opus_int32)v*256; pf[i]=(float)v*(1.f/32768.f); /* == v/32768 exactly (power of two); a float divider per sample would stall the solver */ }
  g_k=0; int r0=opus_encode(&st,p16,NS,out,8);
  g_k=1; int r1=opus_encode24(&st,p24,NS,out,8);
  g_k=2; int r2=opus_encode_float(&st,pf,NS,out,8);
  VASSERT(r0==7&&r1==7&&r2==7&&R[0].n==1&&R[1].n==1&&R[2].n==1,"each entry point makes exactly one native call and returns its result");
  for(int k=1;k<3;k++){
    VASSERT(R[k].frame_size==R[0].frame_size && R[0].frame_size==NS,"same frame size");
    VASSERT(R[k].depth==R[0].depth,"same effective LSB depth when the encoder's depth is <=16");
    VASSERT(R[k].asize==R[0].asize&&R[k].c1==R[0].c1&&R[k].c2==R[0].c2&&R[k].ach==R[0].ach&&R[k].float_api==R[0].float_api,"same analysis arguments");
    VASSERT(R[k].data==out&&R[k].out_bytes==8,"output buffer passed through");
    { int i=vt_range(0,2*NS-1); if(i<NS*C) VASSERT(R[k].pcm[i]==R[0].pcm[i],"bit-identical internal PCM"); }
    { int j=vt_range(0,NS-1); VASSERT(bits(R[k].dm[j])==bits(R[0].dm[j]),"bit-identical analysis downmix"); }
  }
  VASSERT(R[0].apcm==p16&&R[1].apcm==p24&&R[2].apcm==pf,"analysis reads the caller's buffer");
  VWITNESS(p16[3]==-32768);
}
