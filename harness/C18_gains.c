/* C18-H5: gain dequantisation from any previous index and any index values a bitstream can carry; encoder agreement. */
#include "common.h"
#include "main.h"
void harness(void){
  opus_int32 g[4]; opus_int8 ind[4]; opus_int8 prev=vt_char(); int cond=vt_range(0,1); int nb=vt_range(0,1)?4:2;
  __CPROVER_assume(prev>=0&&prev<64);
  /* what silk_decode_indices can produce: absolute index 0..63 (independent) / delta index 0..40 */
  for(int k=0;k<4;k++){ ind[k]=vt_char(); __CPROVER_assume(ind[k]>=0 && ind[k]<64); if(k>0||cond) __CPROVER_assume(ind[k]<=40); }
  silk_gains_dequant(g,ind,&prev,cond,nb);
  VASSERT(prev>=0&&prev<64,"last gain index stays inside the quantiser range (chains of any length by induction)");
  for(int k=0;k<4;k++) if(k<nb) VASSERT(g[k]>=65536 && g[k]<=2147483647,"gain in [1.0, 2^31) Q16");
  /* encoder side: quantise any positive gains, then dequantise the produced indices: identical values and state */
  opus_int32 gq[4]; opus_int8 ind2[4]; opus_int8 p2=vt_char(), p3; __CPROVER_assume(p2>=0&&p2<64); p3=p2;
  for(int k=0;k<4;k++){ gq[k]=vt_int(); __CPROVER_assume(gq[k]>=1); }
  silk_gains_quant(ind2,gq,&p2,cond,nb);
  for(int k=0;k<4;k++) if(k<nb){ VASSERT(ind2[k]>=0 && ind2[k]<64,"encoder index in range"); if(k>0||cond) VASSERT(ind2[k]<=40,"delta index codable (0..40)"); }
  opus_int32 gd[4];
  silk_gains_dequant(gd,ind2,&p3,cond,nb);
  VASSERT(p2==p3,"encoder and decoder agree on the last gain index");
  for(int k=0;k<4;k++) if(k<nb) VASSERT(gd[k]==gq[k],"decoder reconstructs exactly the encoder's quantised gains");
  VWITNESS(prev==63 && ind2[1]==40);
}
