/* C19: opus_pcm_soft_clip (src/opus.c).  Modes (-DMODE=):
   0 pass-through: N=NMAX, C=CMAX (case selectors: symbolic N/C make cbmc unroll the infeasible excursion code N*C times over), every |x|<=1 (any such float incl. +-0, denormals), cleared memory -> bit-identical
   1 degenerate arguments touch nothing
   2 isolated excursion with the peak value and position as case selectors (-DPEAK=<float literal> -DPK=<index>, symbolic sign; float
     division by a symbolic value gives no solver verdict, a concrete isolated peak makes the divider constant):
     every other sample any float in [-1,1], memory cleared or left by a previous excursion:
       output in [-1,1], no sign flip, memory in range, interleaved == per-channel calls (channel independence)
   3 saturation: any finite or infinite inputs (all |x| may exceed 2): after the call every sample is in [-1,1]; here every
     excursion peak saturates to +-2 exactly when PEAKSAT is defined (inputs constrained to |x|<=1 or |x|>=2). */
#include "common.h"
#include <math.h>
#include "opus.h"
#ifndef NMAX
#define NMAX 3
#endif
#ifndef CMAX
#define CMAX 2
#endif
static unsigned fbits(float f){ unsigned u; memcpy(&u,&f,4); return u; }
static int finite_f(float f){ return (fbits(f)&0x7f800000u)!=0x7f800000u; }
/* a flip = strictly opposite signs (zero has no sign) */
static int same_sign_or_zero(float in,float out){ return !(in>0.f && out<0.f) && !(in<0.f && out>0.f); }
#ifndef MEMPEAK
#define MEMPEAK 1.5f
#endif

void harness(void){
#if MODE==0
  int N=NMAX, C=CMAX;
  float x[NMAX*CMAX], y[NMAX*CMAX], mem[CMAX];
  for(int i=0;i<NMAX*CMAX;i++){ x[i]=vt_float(); __CPROVER_assume(x[i]>=-1.f && x[i]<=1.f); y[i]=x[i]; }
  for(int c=0;c<CMAX;c++) mem[c]=0.f;
  opus_pcm_soft_clip(x,N,C,mem);
  for(int i=0;i<NMAX*CMAX;i++) VASSERT(fbits(x[i])==fbits(y[i]),"in-range signal with cleared memory is bit-for-bit untouched");
  for(int c=0;c<CMAX;c++) VASSERT(fbits(mem[c])==0,"memory stays cleared");
  VWITNESS(x[0]==1.f);
#elif MODE==1
  float x[4], y[4], mem[2], m0[2];
  for(int i=0;i<4;i++){ x[i]=vt_float(); y[i]=x[i]; }
  for(int c=0;c<2;c++){ mem[c]=vt_float(); m0[c]=mem[c]; }
  int N=vt_int(), C=vt_int(); int which=vt_range(0,3);
  __CPROVER_assume(N<=2 && C<=2);
  if(which==0){ __CPROVER_assume(C<1); opus_pcm_soft_clip(x,N,C,mem); }
  else if(which==1){ __CPROVER_assume(N<1); opus_pcm_soft_clip(x,N,C,mem); }
  else if(which==2){ __CPROVER_assume(N>=1&&C>=1); opus_pcm_soft_clip(0,N,C,mem); }
  else { __CPROVER_assume(N>=1&&C>=1); opus_pcm_soft_clip(x,N,C,0); }
  for(int i=0;i<4;i++) VASSERT(fbits(x[i])==fbits(y[i]),"degenerate arguments: buffer untouched");
  for(int c=0;c<2;c++) VASSERT(fbits(mem[c])==fbits(m0[c]),"degenerate arguments: memory untouched");
  VWITNESS(which==3 && N==2 && C==2);
#elif MODE==2
  /* isolated excursion: channel 0 carries one peak +-PEAK at position PK (both case selectors), every other sample of both channels is any
     float in [-1,1]; C==2 interleaved versus two C==1 calls */
  int N=NMAX;
  float x[NMAX*2], in[NMAX*2], a0[NMAX], a1[NMAX], mem[2], m1[2];
  int neg=vt_range(0,1);
  const float P=PEAK;
  for(int i=0;i<NMAX;i++){
    float v=vt_float(); __CPROVER_assume(v>=-1.f && v<=1.f);
    if(i==PK) v = neg? -P : P;
    float w=vt_float(); __CPROVER_assume(w>=-1.f && w<=1.f);
    x[2*i]=v; x[2*i+1]=w; in[2*i]=v; in[2*i+1]=w; a0[i]=v; a1[i]=w;
  }
  /* memory: cleared, or the coefficient left by a previous excursion of peak MEMPEAK of either sign */
  for(int c=0;c<2;c++){ int k=vt_range(0,2); float m = k==0?0.f : (k==1? -(MEMPEAK-1.f)/(MEMPEAK*MEMPEAK) : (MEMPEAK-1.f)/(MEMPEAK*MEMPEAK)); mem[c]=m; m1[c]=m; }
  opus_pcm_soft_clip(x,N,2,mem);
  opus_pcm_soft_clip(a0,N,1,&m1[0]);
  opus_pcm_soft_clip(a1,N,1,&m1[1]);
  for(int i=0;i<NMAX*2;i++){
    VASSERT(x[i]>=-1.f && x[i]<=1.f,"soft clip: output inside [-1,1]");
    VASSERT(same_sign_or_zero(in[i],x[i]),"soft clip never flips a sample's sign");
  }
  for(int i=0;i<NMAX;i++){
    VASSERT(fbits(x[2*i])==fbits(a0[i]),"channel 0 of the interleaved call == per-channel call");
    VASSERT(fbits(x[2*i+1])==fbits(a1[i]),"channel 1 of the interleaved call == per-channel call");
  }
  VASSERT(fbits(mem[0])==fbits(m1[0]) && fbits(mem[1])==fbits(m1[1]),"memory per channel == per-channel call");
  VASSERT(mem[0]>=-1.f && mem[0]<=1.f && mem[1]==0.f,"memory coefficient in range; cleared for a channel that ended in range");
  VWITNESS(neg==1 && x[2*PK]<0 && x[2*PK]>=-1.f);
#elif MODE==3
  int N=NMAX, C=CMAX;
  float x[NMAX*CMAX], in[NMAX*CMAX], mem[CMAX];
  for(int i=0;i<NMAX*CMAX;i++){ float v=vt_float(); __CPROVER_assume(v==v); __CPROVER_assume((v>=-1.f&&v<=1.f) || v>=2.f || v<=-2.f); x[i]=v; in[i]=v; }
  for(int c=0;c<CMAX;c++){ int k=vt_range(0,2); mem[c]= k==0?0.f:(k==1?-0.25f:0.25f); }
  opus_pcm_soft_clip(x,N,C,mem);
  for(int i=0;i<NMAX*CMAX;i++) if(i<N*C){
    VASSERT(x[i]>=-1.f && x[i]<=1.f,"soft clip: output inside [-1,1] (peaks saturated at +-2, incl. +-infinity)");
    VASSERT(same_sign_or_zero(in[i],x[i]),"soft clip never flips a sample's sign");
  } else VASSERT(fbits(x[i])==fbits(in[i]),"nothing written beyond N*C samples");
#if NMAX>=2
  /* the memory is the coefficient still in force at the end of the call: an excursion that ended at a zero crossing before the last
     sample leaves none */
  for(int c=0;c<CMAX;c++){ float l=in[(NMAX-1)*CMAX+c], p=in[(NMAX-2)*CMAX+c];
    if(l>=-1.f && l<=1.f && ((l>0.f&&p<0.f)||(l<0.f&&p>0.f))) VASSERT(fbits(mem[c])==0,"memory cleared when the frame ends in range after a zero crossing"); }
#endif
  VWITNESS(in[0]>=2.f && (NMAX*CMAX==1 || in[NMAX*CMAX-1]<=-2.f));
#elif MODE==4
  /* in-range frame, memory left by a previous excursion (any coefficient a previous call can leave: |a|<=0.25*(1+2.4e-7)): the previous
     curve is continued up to the first zero crossing (no division on this path), the samples stay inside [-1,1] and keep their sign, and the
     memory is cleared because nothing is in force at the end of the call */
  int N=NMAX, C=CMAX;
  float x[NMAX*CMAX], in[NMAX*CMAX], mem[CMAX], m0[CMAX];
  for(int i=0;i<NMAX*CMAX;i++){ float v=vt_float(); __CPROVER_assume(v>=-1.f && v<=1.f); x[i]=v; in[i]=v; }
  for(int c=0;c<CMAX;c++){ float m=vt_float(); __CPROVER_assume(m>=-0.2500001f && m<=0.2500001f); mem[c]=m; m0[c]=m; }
  opus_pcm_soft_clip(x,N,C,mem);
  for(int i=0;i<NMAX*CMAX;i++){
    VASSERT(x[i]>=-1.f && x[i]<=1.f,"soft clip: output inside [-1,1]");
    VASSERT(same_sign_or_zero(in[i],x[i]),"soft clip never flips a sample's sign");
    { int c=i%CMAX; if(!(in[c]*m0[c]<0.f)) VASSERT(fbits(x[i])==fbits(in[i]),"a channel whose first sample does not oppose the previous curve is bit-for-bit untouched"); }
  }
  for(int c=0;c<CMAX;c++) VASSERT(fbits(mem[c])==0,"memory cleared after a frame that ends in range");
  VWITNESS(m0[0]<0.f && in[0]>0.5f && x[0]<in[0]);
#endif
}
