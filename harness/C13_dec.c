/* C13-H2: opus_decode / opus_decode24 / opus_decode_float around a synth opus_decode_native that produces the same float
   samples x (|x|<=1, i.e. what the soft clipper passes through) for all three: 24-bit == rint(x*2^23), 16-bit == sat16(rint(32768 x)),
   float == x, equal sample counts, writes confined to ret*channels samples. */
#include "common.h"
#define opus_decode_native opus_decode_native_REAL
#include "opus_decoder.c"
#undef opus_decode_native
#define MAXN 3
static float X[2*MAXN]; static int g_ret; static int g_fs[3], g_clip[3], g_k;
int syn_native(OpusDecoder *st, const unsigned char *data, opus_int32 len, opus_res *pcm, int frame_size, int decode_fec, int self_delimited,
      opus_int32 *packet_offset, int soft_clip, const OpusDRED *dred, opus_int32 dred_offset){
  g_fs[g_k]=frame_size; g_clip[g_k]=soft_clip;
#ifdef WITHPKT
  /* the real decoder rejects (at least) every packet the duration helper rejects: opus_packet_parse_impl fails for a bad count byte and for > 120 ms */
  if(data!=0 && len>0 && opus_decoder_get_nb_samples(st,data,len)<=0) return OPUS_INVALID_PACKET;
#endif
  if(g_ret<0) return g_ret;
  if(g_ret>frame_size) return OPUS_BUFFER_TOO_SMALL;
  for(int i=0;i<2*MAXN;i++) if(i<g_ret*st->channels) pcm[i]=X[i];     /* bounds-checked against the wrapper's scratch buffer */
  return g_ret;
}
void harness(void){
  static OpusDecoder st; st.Fs=8000; st.channels=CH; st.arch=0; int C=st.channels;
  int fs=vt_range(-1,MAXN); g_ret=vt_range(-7,MAXN);
  for(int i=0;i<2*MAXN;i++){ X[i]=vt_float(); __CPROVER_assume(X[i]>=-1.f&&X[i]<=1.f); }
  opus_int16 o16[2*MAXN+1]; opus_int32 o24[2*MAXN+1]; float of[2*MAXN+1];
  for(int i=0;i<=2*MAXN;i++){ o16[i]=12345; o24[i]=123456789; of[i]=77.f; }
#ifdef WITHPKT
  /* any 2-byte packet, any len 0..2, NULL or not, decode_fec 0/1: the three entry points must hand the same request to the decoder */
  unsigned char pk[2]; pk[0]=vt_uchar(); pk[1]=vt_uchar(); int plen=vt_range(0,2); int fec=vt_range(0,1); const unsigned char *pd = &pk[0]; if(vt_range(0,1)) pd=(const unsigned char*)0;
  st.DecControl.API_sampleRate=8000; st.DecControl.nChannelsAPI=CH; st.stream_channels=CH;
  g_fs[0]=g_fs[1]=g_fs[2]=-99;
#else
  const unsigned char *pd=0; int plen=0, fec=0;
#endif
  g_k=0; int r0=opus_decode(&st,pd,plen,o16,fs,fec);
  g_k=1; int r1=opus_decode24(&st,pd,plen,o24,fs,fec);
  g_k=2; int r2=opus_decode_float(&st,pd,plen,of,fs,fec);
  VASSERT(r0==r1&&r1==r2,"same sample count / error from all three entry points");
#ifdef WITHPKT
  VASSERT(g_fs[0]==g_fs[1],"16-bit and 24-bit entry points pass the same frame_size to the decoder");
  if(fs>0 && (fec || pd==0 || plen==0)) VASSERT(g_fs[0]==fs && g_fs[1]==fs && g_fs[2]==fs,"a concealment / FEC request reaches the decoder with the requested duration from every entry point");
  if(fs>0 && g_fs[0]!=-99) VASSERT(g_fs[0]<=fs && g_fs[2]==fs,"frame_size is only ever clamped down, to the packet duration");
#endif
  if(fs<=0) VASSERT(r0==OPUS_BAD_ARG,"non-positive frame_size rejected");
  if(r0>0){
    int i=vt_range(0,2*MAXN-1);
    if(i<r0*C){
      double x=X[i];
      VASSERT(of[i]==X[i],"float output is the decoder's sample");
      double d24=(double)o24[i]-x*8388608.0; VASSERT(d24>=-0.5&&d24<=0.5,"24-bit output == float output * 2^23 rounded to nearest");
      double t=x*32768.0; if(t>32767.0) t=32767.0; if(t<-32768.0) t=-32768.0;
      double d16=(double)o16[i]-t; VASSERT(d16>=-0.5&&d16<=0.5,"16-bit output == float output * 2^15 rounded to nearest and saturated");
    } else { VASSERT(o16[i]==12345&&o24[i]==123456789&&of[i]==77.f,"nothing written beyond ret*channels samples"); }
  } else {
    int i=vt_range(0,2*MAXN); VASSERT(o16[i]==12345&&o24[i]==123456789&&of[i]==77.f,"nothing written on error");
  }
  VWITNESS(r0==MAXN);
}
