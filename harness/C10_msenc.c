/* C10-H4 / C05-H3: the packing loop of the real opus_multistream_encode_native (src/opus_multistream_encoder.c), with the real
   rate_allocation, get_left/right/mono_channel, validate_*layout, from any multistream encoder state with 1..3 streams, any coupled count,
   any valid mapping, any mapping type, any bitrate (incl. AUTO/MAX), VBR or CBR, any output budget 0..MAXOUT.
   Stubbed (contracts are part of the claim):
     opus_encode_native     asserts it is handed >= 1 byte (>= 2 for 100 ms) and at most MS_FRAME_TMP; returns a single-frame (code 0) packet
                            of ANY length 1..budget with a TOC of the submitted duration
     opus_repacketizer_cat  records the packet; opus_repacketizer_out_range_impl: contract stub for a one-frame packet (C07-H2): needs
                            len + (self-delimited ? 1 or 2 : 0) bytes, fails with OPUS_BUFFER_TOO_SMALL otherwise, pads to maxlen on request
     opus_encoder_ctl       sample rate / VBR / CELT mode getters, logs OPUS_SET_BITRATE
     opus_encoder_get_size, frame_size_select (OPUS_FRAMESIZE_ARG only), surround_analysis, copy_channel_in: trivial stand-ins
   Case selectors: -DNS/-DNC (streams / coupled streams), -DFSI, -DDUR (0..3 = 2.5,5,10,20 ms; 7 = 100 ms with a code-3 TOC pair), -DMAXOUT. */
#include "common.h"
#include <stdarg.h>
#define surround_analysis surround_analysis_REAL
#include "opus_multistream_encoder.c"
#undef surround_analysis
#ifndef MAXOUT
#define MAXOUT 600
#endif
static const int FSV[5]={8000,12000,16000,24000,48000};
static const int NUM[9]={1,2,4,8,16,24,32,40,48};
#define FS (FSV[FSI])
#define FRAME (NUM[DUR]*(FS/400))
static CELTMode dummy_mode;
static int g_vbr; static int g_last_setbr;
int opus_encoder_ctl(OpusEncoder *st, int request, ...){
  va_list ap; va_start(ap,request);
  if(request==OPUS_GET_SAMPLE_RATE_REQUEST){ opus_int32 *v=va_arg(ap,opus_int32*); *v=FS; }
  else if(request==OPUS_GET_VBR_REQUEST){ opus_int32 *v=va_arg(ap,opus_int32*); *v=g_vbr; }
  else if(request==CELT_GET_MODE_REQUEST){ const CELTMode **v=va_arg(ap,const CELTMode**); *v=&dummy_mode; }
  else if(request==OPUS_SET_BITRATE_REQUEST){ opus_int32 v=va_arg(ap,opus_int32); VASSERT(v>0,"streams are given a positive bitrate"); g_last_setbr=v; }
  va_end(ap); return OPUS_OK; }
int opus_encoder_get_size(int channels){ return channels==2?128:64; }
opus_int32 frame_size_select(opus_int32 frame_size, int variable_duration, opus_int32 Fs){
  if(frame_size<Fs/400) return -1;
  if (400*frame_size!=Fs && 200*frame_size!=Fs && 100*frame_size!=Fs && 50*frame_size!=Fs && 25*frame_size!=Fs && 50*frame_size!=3*Fs && 50*frame_size!=4*Fs && 50*frame_size!=5*Fs && 50*frame_size!=6*Fs) return -1;
  return frame_size; }
void stub_surround(const CELTMode *m, const void *pcm, celt_glog *bandLogE, opus_val32 *mem, opus_val32 *pm, int len, int overlap, int channels, int rate, opus_copy_channel_in_func f, int arch){}
static void stub_copy_in(opus_res *dst, int dst_stride, const void *src, int src_stride, int src_channel, int frame_size, void *user_data){
  VASSERT(src_channel>=0 && src_channel<src_stride,"channel copied in exists"); }
/* ---- sub-encoder ---- */
static int g_calls, g_len[4], g_max[4], g_br_at_call[4];
opus_int32 opus_encode_native(OpusEncoder *st, const opus_res *pcm, int frame_size, unsigned char *data, opus_int32 out_data_bytes, int lsb_depth,
                const void *analysis_pcm, opus_int32 analysis_size, int c1, int c2, int analysis_channels, downmix_func downmix, int float_api){
  int k=g_calls++;
  VASSERT(k<3,"one encode call per stream");
  VASSERT(out_data_bytes>=1 && (DUR!=7 || out_data_bytes>=2),"every stream is handed room for a minimal packet");
  VASSERT(out_data_bytes<=MS_FRAME_TMP,"stream budget fits the temporary buffer");
  VASSERT(frame_size==FRAME,"streams code the submitted duration");
  int n=vt_range(1,MAXOUT+8); __CPROVER_assume(n<=out_data_bytes);
  g_len[k]=n; g_max[k]=out_data_bytes; g_br_at_call[k]=g_last_setbr;
  data[0]=(unsigned char)((28+(DUR>3?3:DUR))<<3);          /* CELT fullband mono, single frame */
  data[n-1]=(n==1)?data[0]:vt_uchar();
  return n; }
/* ---- repacketizer contract stubs (one frame per stream) ---- */
static int s_len;
OpusRepacketizer *opus_repacketizer_init(OpusRepacketizer *rp){ rp->nb_frames=0; s_len=0; return rp; }
int opus_repacketizer_get_nb_frames(OpusRepacketizer *rp){ return rp->nb_frames; }
int opus_repacketizer_cat(OpusRepacketizer *rp, const unsigned char *data, opus_int32 len){
  VASSERT(len>=1,"cat is given the stream's packet"); unsigned char a=data[0], b=data[len-1]; (void)a; (void)b; rp->nb_frames=1; s_len=len; return OPUS_OK; }
static int g_out_fail;
opus_int32 opus_repacketizer_out_range_impl(OpusRepacketizer *rp, int begin, int end, unsigned char *data, opus_int32 maxlen, int sd, int pad, const opus_extension_data *e, int ne){
  VASSERT(begin==0 && end==1 && ne==0,"whole packet, no extensions");
  int flen=s_len-1; int need = s_len + (sd? (flen<252?1:2) : 0);
  if(need>maxlen){ g_out_fail=1; return OPUS_BUFFER_TOO_SMALL; }
  int r = pad? maxlen : need;
  data[0]=0; data[r-1]=0;                                  /* touches what it claims: bounds-checked against the caller's buffer */
  return r; }

void harness(void){
  struct { OpusMSEncoder e; char enc[3*128+64]; } S; OpusMSEncoder *st=&S.e;
  int ns=NS, nc=NC;                      /* case selectors: the scratch VLA bandSMR is sized by the channel count */
  st->layout.nb_streams=ns; st->layout.nb_coupled_streams=nc; st->layout.nb_channels=ns+nc;
  for(int i=0;i<6;i++) st->layout.mapping[i]=vt_uchar();
  __CPROVER_assume(validate_layout(&st->layout) && validate_encoder_layout(&st->layout));          /* what init checks */
  __CPROVER_assume(st->lfe_stream>=-1 && st->lfe_stream<ns);
  __CPROVER_assume(st->mapping_type==MAPPING_TYPE_NONE||st->mapping_type==MAPPING_TYPE_SURROUND||st->mapping_type==MAPPING_TYPE_AMBISONICS);
  __CPROVER_assume(st->mapping_type==MAPPING_TYPE_SURROUND || st->lfe_stream==-1);                   /* init */
  __CPROVER_assume(st->bitrate_bps==OPUS_AUTO||st->bitrate_bps==OPUS_BITRATE_MAX||(st->bitrate_bps>=500*(ns+nc)&&st->bitrate_bps<=300000*(ns+nc)));   /* ctl */
  st->variable_duration=OPUS_FRAMESIZE_ARG; st->arch=0;
  g_vbr=vt_range(0,1);
  int max_data_bytes=vt_range(0,MAXOUT);
  /* the output buffer ENDS at the end of its object: a store at or behind data[max_data_bytes] is a bounds failure */
  unsigned char store[MAXOUT+1]; unsigned char *data=store+(MAXOUT+1-max_data_bytes);
  float pcm[4];
  int r=opus_multistream_encode_native(st, stub_copy_in, pcm, FRAME, data, max_data_bytes, 24, (downmix_func)0, 1, (void*)0);
  int smallest=2*ns-1 + (DUR==7?ns:0);
  VASSERT(!g_out_fail,"the repacketizer never runs out of room: the bytes reserved for self-delimiting lengths match what they need");
  VASSERT(r!=OPUS_BAD_ARG && r!=OPUS_INTERNAL_ERROR,"a legal call is not rejected");
  VASSERT((r==OPUS_BUFFER_TOO_SMALL)==(max_data_bytes<smallest),"OPUS_BUFFER_TOO_SMALL exactly below the minimal multistream packet (2 bytes per stream but the last)");
  if(r!=OPUS_BUFFER_TOO_SMALL){
    VASSERT(r>=1 && r<=max_data_bytes,"1 <= length <= max_data_bytes");
    VASSERT(g_calls==ns,"every stream coded once");
    int sum=0; for(int k=0;k<3;k++) if(k<ns) sum += g_len[k] + (k<ns-1? ((g_len[k]-1)<252?1:2) : 0);
    if(g_vbr) VASSERT(r==sum,"VBR: the packet is the self-delimited streams back to back");
    else {
      long long cap=max_data_bytes;
      if(st->bitrate_bps!=OPUS_BITRATE_MAX && st->bitrate_bps!=OPUS_AUTO){ long long w=(long long)st->bitrate_bps*FRAME/(8LL*FS); if(w<smallest) w=smallest; if(w<cap) cap=w; }
      if(st->bitrate_bps!=OPUS_AUTO) VASSERT(r==cap,"CBR: the multistream packet has exactly the CBR size (the whole buffer for OPUS_BITRATE_MAX)");
      VASSERT(g_br_at_call[ns-1]==g_max[ns-1]*(8*FS/FRAME),"CBR: the last stream is told to fill what is left");
    }
  }
  VWITNESS(r>300 && g_len[0]>252);
}
