/* C17-H3: Laplace coder over a tape range coder: for every entry of the real e_prob_model (symbolic LM,intra,band):
   (a) any fm<32768 decodes to a value whose interval contains fm and which the encoder maps to the identical interval (no clamp);
   (b) any int16 value encodes (after the documented clamp) to an interval every point of which decodes to that value. */
#include "common.h"
#include "laplace.h"
#include "entenc.h"
#include "entdec.h"
static unsigned g_fm; static unsigned d_fl,d_fh,d_ft; static unsigned e_fl,e_fh,e_bits; static int e_called, d_called;
unsigned ec_decode_bin(ec_dec *d, unsigned bits){ VASSERT(bits==15,"decode_bin(15)"); return g_fm; }
void ec_dec_update(ec_dec *d, unsigned fl, unsigned fh, unsigned ft){ d_fl=fl; d_fh=fh; d_ft=ft; d_called++; }
void ec_encode_bin(ec_enc *e, unsigned fl, unsigned fh, unsigned bits){ e_fl=fl; e_fh=fh; e_bits=bits; e_called++; }
#include "quant_bands.c"   /* the real probability model table e_prob_model */
void harness(void){
  ec_enc enc; ec_dec dec; memset(&enc,0,sizeof enc); memset(&dec,0,sizeof dec);
  int LM=vt_range(0,3), intra=vt_range(0,1), i=vt_range(0,20);
  int pi=2*(i<20?i:20);
  unsigned fs = e_prob_model[LM][intra][pi]<<7; int decay = e_prob_model[LM][intra][pi+1]<<6;
#if DIR==0
  g_fm = vt_uint(); __CPROVER_assume(g_fm<32768);
  int v = ec_laplace_decode(&dec, fs, decay);
  VASSERT(d_called==1 && d_ft==32768,"one update with ft=32768");
  VASSERT(d_fl<=g_fm && g_fm<d_fh && d_fh<=32768 && d_fl<d_fh,"fm inside the returned non-empty interval");
  int v2=v;
  ec_laplace_encode(&enc,&v2,fs,decay);
  VASSERT(v2==v,"a decodable value is not clamped by the encoder");
  VASSERT(e_called==1 && e_bits==15 && e_fl==d_fl && e_fh==d_fh,"encoder interval == decoder interval");
  VWITNESS(v==-7);
#else
  int v=vt_range(-32768,32767); int vc=v;
  ec_laplace_encode(&enc,&vc,fs,decay);
  VASSERT(e_called==1 && e_bits==15 && e_fl<e_fh && e_fh<=32768,"non-empty interval inside [0,32768)");
  VASSERT((v>=0)==(vc>=0) && abs(vc)<=abs(v),"clamp keeps the sign and only reduces magnitude");
  g_fm=vt_uint(); __CPROVER_assume(g_fm>=e_fl && g_fm<e_fh);
  int w=ec_laplace_decode(&dec,fs,decay);
  VASSERT(w==vc,"every point of the encoder's interval decodes to the (clamped) value: no overlap");
  VASSERT(d_fl==e_fl && d_fh==e_fh,"identical interval");
  VWITNESS(v==300 && vc!=v);
#endif
}
