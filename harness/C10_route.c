/* C10-H1: channel routing of opus_multistream_decode_native (float, 24-bit or 16-bit copy, -DFMT=0|1|2) with the per-stream decoder as a
   logging synth stub: any layout/mapping with NC output channels (case selector), <=MAXS streams, 1 sample per channel:
   every output channel carries the mapped stream/side sample (converted), 255 => silence, framing flag per stream, one call per stream. */
#include "common.h"
#include "opus_multistream_decoder.c"
#ifndef MAXS
#define MAXS 2
#endif
#define MAXFS 1
static float logbuf[MAXS][2*MAXFS]; static int g_ret; static int g_idx; static int g_sd[MAXS]; static OpusMSDecoder *g_ms;
int opus_decoder_get_size(int ch){ return ch==2? 64 : 48; }
int opus_decoder_init(OpusDecoder *st, opus_int32 Fs, int ch){ return OPUS_OK; }
int opus_decoder_ctl(OpusDecoder *st, int request, ...){ va_list ap; va_start(ap,request); if(request==OPUS_GET_SAMPLE_RATE_REQUEST){ opus_int32 *v=va_arg(ap,opus_int32*); *v=48000; } va_end(ap); return OPUS_OK; }
/* framing is C06's job: here any sub-packet split */
int opus_packet_parse_impl(const unsigned char *data, opus_int32 len, int sd, unsigned char *toc, const unsigned char *frames[48], opus_int16 size[48], int *po, opus_int32 *pko, const unsigned char **pad, opus_int32 *padlen){
  if(len<1) return OPUS_INVALID_PACKET;
  /* deterministic in the bytes (like the real parser), so that validation and decoding agree: sub-packet length = 1+(first byte & 7) */
  opus_int32 o=1+(data[0]&7); if(data[0]&0x80) return OPUS_INVALID_PACKET; if(o>len) return OPUS_INVALID_PACKET; if(!sd && o!=len) return OPUS_INVALID_PACKET;
  if(pko)*pko=o; if(toc)*toc=data[0]; return 1; }
int opus_packet_get_nb_samples(const unsigned char *p, opus_int32 len, opus_int32 Fs){ return MAXFS; }
int opus_decode_native(OpusDecoder *st, const unsigned char *data, opus_int32 len, opus_res *pcm, int frame_size, int decode_fec, int self_delimited, opus_int32 *packet_offset, int soft_clip, const OpusDRED *dred, opus_int32 dred_offset){
  int s=g_idx++; VASSERT(s<g_ms->layout.nb_streams,"exactly one decode call per stream");
  int expect_ch = s<g_ms->layout.nb_coupled_streams ? 2:1;
  { char *base=(char*)g_ms + align(sizeof(OpusMSDecoder)); int off=0; for(int t=0;t<MAXS;t++) if(t<s) off+= t<g_ms->layout.nb_coupled_streams ? align(64):align(48);
    VASSERT((char*)st==base+off,"stream s uses the s-th embedded decoder state"); }
  g_sd[s]=self_delimited;
  if(s==0){ g_ret=vt_range(1,MAXFS); __CPROVER_assume(g_ret<=frame_size); }
  VASSERT(frame_size>=g_ret,"later streams are asked for the first stream's duration");
  for(int i=0;i<2*MAXFS;i++) if(i<g_ret*expect_ch){ float v=vt_float(); __CPROVER_assume(v>=-1.f&&v<=1.f); pcm[i]=v; logbuf[s][i]=v; }
  if(len>0){ opus_int32 o=1+(data[0]&7); VASSERT(o<=len && !(data[0]&0x80) && (self_delimited || o==len),"sub-packet handed to the stream decoder is the one validation accepted"); *packet_offset=o; }
  return g_ret; }
void harness(void){
  static struct { OpusMSDecoder ms; char tail[MAXS*64+16]; } S; OpusMSDecoder *st=&S.ms; g_ms=st;
  int C=NC, ns=vt_range(1,MAXS), nc=vt_range(0,MAXS); __CPROVER_assume(nc<=ns);
  st->layout.nb_channels=C; st->layout.nb_streams=ns; st->layout.nb_coupled_streams=nc;
  for(int c=0;c<NC;c++) st->layout.mapping[c]=vt_uchar();
  __CPROVER_assume(validate_layout(&st->layout));
  unsigned char pkt[8]; for(int i=0;i<8;i++) pkt[i]=vt_uchar(); int len=vt_range(0,8);
  int fs=MAXFS;
#if FMT==0
  float out[MAXFS*NC]; int r=opus_multistream_decode_float(st,pkt,len,out,fs,0);
#elif FMT==1
  opus_int32 out[MAXFS*NC]; int r=opus_multistream_decode24(st,pkt,len,out,fs,0);
#else
  opus_int16 out[MAXFS*NC]; int r=opus_multistream_decode(st,pkt,len,out,fs,0);
#endif
  VASSERT(r!=OPUS_INTERNAL_ERROR,"never an internal error");
  if(r>0){
    VASSERT(r==g_ret && g_idx==ns,"all streams decoded, common duration");
    for(int s=0;s<MAXS;s++) if(s<ns && len>0) VASSERT(g_sd[s]==(s!=ns-1),"every stream but the last is self-delimited");
    for(int c=0;c<NC;c++){
      int m=st->layout.mapping[c]; float src = m==255 ? 0.f : (m<2*nc ? logbuf[m/2][m&1] : logbuf[m-nc][0]);
#if FMT==0
      VASSERT(out[c]==src,"float output channel == mapped stream/side sample; 255 => exact silence");
#elif FMT==1
      { double d=(double)out[c]-(double)src*8388608.0; VASSERT(d>=-0.5&&d<=0.5,"24-bit output channel == mapped sample * 2^23, rounded"); if(m==255) VASSERT(out[c]==0,"255 => exact silence"); }
#else
      { double t=(double)src*32768.0; if(t>32767.0)t=32767.0; double d=(double)out[c]-t; VASSERT(d>=-0.5&&d<=0.5,"16-bit output channel == mapped sample * 2^15, rounded and saturated"); if(m==255) VASSERT(out[c]==0,"255 => exact silence"); }
#endif
    }
  }
  VWITNESS(r>0 && ns==MAXS && nc>=1);
}
