/* C18-H2: silk_NLSF_decode for a symbolic codebook, first-stage index and residual indices in [-10,10];
   the stabiliser is a contract stub (pre: called once, last, on the output with the codebook's table; post: H1). */
#include "common.h"
#include "main.h"
#include "tables.h"
static const silk_NLSF_CB_struct *g_cb; static opus_int16 *g_out; static int g_called;
void silk_NLSF_stabilize(opus_int16 *x, const opus_int16 *dmin, const opus_int L){
  VASSERT(x==g_out && dmin==g_cb->deltaMin_Q15 && L==g_cb->order,"stabilize called on the output with the codebook's table and order");
  g_called++;
  for(int i=0;i<16;i++) if(i<L) x[i]=vt_short();
  __CPROVER_assume(x[0]>=dmin[0]);
  for(int i=1;i<16;i++) if(i<L) __CPROVER_assume(x[i]-x[i-1]>=dmin[i]);
  __CPROVER_assume(x[L-1]<=32768-dmin[L]);
}
void harness(void){
  int wb=vt_range(0,1);
  const silk_NLSF_CB_struct *cb = wb ? &silk_NLSF_CB_WB : &silk_NLSF_CB_NB_MB; g_cb=cb;
  opus_int8 idx[17]; opus_int16 out[16]; g_out=out;
  idx[0]=vt_char(); __CPROVER_assume(idx[0]>=0&&idx[0]<cb->nVectors);
  for(int i=1;i<=16;i++){ idx[i]=vt_char(); __CPROVER_assume(idx[i]>=-10&&idx[i]<=10); }
  silk_NLSF_decode(out, idx, cb);
  VASSERT(g_called==1,"stabilised exactly once, as the last step");
  VWITNESS(wb==1 && idx[0]==31 && idx[5]==-10);
}
