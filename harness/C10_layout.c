/* C10-H2: layout validation and channel lookup vs a direct specification, any layout with <= NCH channels. */
#include "common.h"
#include "opus_multistream.h"
#include "opus_private.h"
#include "opus_multistream_encoder.c"      /* static validate_encoder_layout, validate_ambisonics */
void harness(void){
  ChannelLayout L; memset(&L,0,sizeof L);
  L.nb_channels=vt_range(0,NCH); L.nb_streams=vt_range(-1,256); L.nb_coupled_streams=vt_range(-1,256);
  for(int i=0;i<NCH;i++) L.mapping[i]=vt_uchar();
  __CPROVER_assume(L.nb_streams>=0&&L.nb_coupled_streams>=0);
  int maxch=L.nb_streams+L.nb_coupled_streams;
  int ok=maxch<=255; for(int i=0;i<NCH;i++) if(i<L.nb_channels && L.mapping[i]!=255 && L.mapping[i]>=maxch) ok=0;
  VASSERT(validate_layout(&L)==ok,"layout valid iff streams+coupled<=255 and every mapping entry is 255 or names an existing decoded channel");
  int s=vt_range(0,255), prev=vt_range(-1,NCH);
  { int want=-1; for(int i=NCH-1;i>=0;i--) if(i<L.nb_channels && i>prev && L.mapping[i]==2*s) want=i;
    VASSERT(get_left_channel(&L,s,prev)==want,"left channel of a coupled stream = next output channel mapped to 2s"); }
  { int want=-1; for(int i=NCH-1;i>=0;i--) if(i<L.nb_channels && i>prev && L.mapping[i]==2*s+1) want=i;
    VASSERT(get_right_channel(&L,s,prev)==want,"right channel = next output channel mapped to 2s+1"); }
  { int want=-1; for(int i=NCH-1;i>=0;i--) if(i<L.nb_channels && i>prev && L.mapping[i]==s+L.nb_coupled_streams) want=i;
    VASSERT(get_mono_channel(&L,s,prev)==want,"mono channel = next output channel mapped to s+coupled"); }
  if(L.nb_streams<=4 && L.nb_coupled_streams<=L.nb_streams){
    int enc=1; for(int t=0;t<4;t++) if(t<L.nb_streams){ int need1= t<L.nb_coupled_streams ? 2*t : t+L.nb_coupled_streams, need2 = t<L.nb_coupled_streams ? 2*t+1 : -1, f1=0,f2=(need2<0);
      for(int i=0;i<NCH;i++) if(i<L.nb_channels){ if(L.mapping[i]==need1) f1=1; if(need2>=0&&L.mapping[i]==need2) f2=1; } if(!f1||!f2) enc=0; }
    VASSERT(validate_encoder_layout(&L)==enc,"encoder layout valid iff every stream (both sides of coupled ones) feeds from some input channel"); }
  /* ambisonics channel counts (RFC 8486 family 2/3): (order+1)^2 plus optionally 2 non-diegetic channels, at most 227 */
  { int n=vt_range(-3,300), st=-1, cp=-1; int r=validate_ambisonics(n,&st,&cp);
    int want=0, o1=0; for(int k=1;k<=15;k++){ if(n==k*k){want=1;o1=k;} if(n==k*k+2){want=2;o1=k;} } if(n<1||n>227) want=0;
    VASSERT((r!=0)==(want!=0),"ambisonics channel count accepted iff (order+1)^2 or (order+1)^2+2, 1..227");
    if(r) VASSERT(st==o1*o1+(want==2) && cp==(want==2),"streams = ACN channels (+1 coupled pair for the non-diegetic stereo)"); }
  VWITNESS(ok && L.nb_channels==NCH && L.mapping[0]==255);
}
