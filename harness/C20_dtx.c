/* C20-H1: generalised DTX counter (static decide_dtx_mode of src/opus_encoder.c): one step from ANY state satisfying the
   invariant J (inductive => activity schedules of any length), plus K consecutive steps from any such state. */
#include "common.h"
#include "opus_encoder.c"
#define T200 (NB_SPEECH_FRAMES_BEFORE_DTX*20*2)                          /* 200 ms in Q1 */
#define T600 ((NB_SPEECH_FRAMES_BEFORE_DTX+MAX_CONSECUTIVE_DTX)*20*2)    /* 600 ms in Q1 */
/* ghost state: run = duration (Q1 ms) of the current run of consecutive DTX decisions, 0 when the last frame was not DTX */
static int J(int cnt,int run,int fs){
  if(cnt<0||cnt>T600) return 0;
  if(run==0) return cnt<=T200;          /* last frame not DTX: active (0), still counting up (<=200 ms), or just refreshed (==200 ms) */
  return run>=fs && cnt-run>T200-fs && cnt-run<=T200;   /* the run started from a counter within one frame of the 200 ms mark */
}
void harness(void){
  int cnt=vt_int(), run=vt_int(); int fs=vt_int();
  __CPROVER_assume(fs==5||fs==10||fs==20||fs==40||fs==80||fs==120||fs==160||fs==200||fs==240); /* 2.5 .. 120 ms in Q1 */
  __CPROVER_assume(run>=0 && J(cnt,run,fs));
  int alldtx=1;
  for(int k=0;k<STEPS;k++){
    int act=vt_int(); int c0=cnt;
    int d=decide_dtx_mode(act,&cnt,fs);
    VASSERT(d==0||d==1,"boolean decision");
    VASSERT(d==(!act && c0+fs>T200 && c0+fs<=T600),"DTX exactly when inactive and the silence counter is in (200 ms, 600 ms]: starts within one frame of the 200 ms mark");
    if(d){ run+=fs; VASSERT(cnt>=T200,"OPUS_GET_IN_DTX expression is true on every DTX decision"); } else { run=0; alldtx=0; }
    if(act) VASSERT(cnt==0 && d==0,"activity resets the counter and is coded normally");
    VASSERT(J(cnt,run,fs),"invariant preserved");
    VASSERT(run < MAX_CONSECUTIVE_DTX*20*2 + fs,"a run of DTX decisions exceeds 400 ms by less than one frame");
  }
  VWITNESS(alldtx && run>=2*fs);
}
