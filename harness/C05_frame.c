/* C05-H2 / C02-H4 / C20-H4 / C11-H4: the per-frame glue of the encoder, the real static opus_encode_frame_native (src/opus_encoder.c),
   from any encoder state that satisfies the invariant below plus what opus_encode_native establishes before the call (asserted at
   the frame-encoder stub of harness/C02_glue.c: a decided mode/bandwidth pair, a frame size legal for the mode, >= 3 bytes of budget).
   Real code besides the function itself: the range encoder (celt/entenc.c), gen_toc, decide_dtx_mode, compute_redundancy_bytes,
   compute_silk_rate_for_hybrid, silk_lin2log/log2lin, check_control_input, the packet inspection helpers.
   Stubbed (contracts are part of the claim):
     silk_Encode            asserts the control structure passes the real check_control_input and matches the call (payload duration,
                            channels, bit cap inside the packet); reads first/last input sample; then behaves like ANY SILK encoder: leaves
                            the range coder in any consistent state with any number of bytes written (including more than fit: error
                            flag), reports any internal rate in [min,max], any switchReady/signalType, any nBytesOut consistent with it
     celt_encode_with_ec    refuses < 2 bytes like the real one; reads first/last input sample; with its own buffer: writes first/last
                            byte of the nbCompressedBytes it was handed; with the shared coder: requires ec_tell <= 8*nbCompressedBytes
                            and storage == nbCompressedBytes, returns any 2..nbCompressedBytes (VBR may shrink), leaves any final range
     celt_encoder_ctl       CELT_GET_MODE, OPUS_GET_FINAL_RANGE; logs channels / end band / start band / bitrate
     hp_cutoff, dc_reject, gain_fade, stereo_fade: touch first/last sample of the regions they are handed
     celt_inner_prod, compute_frame_energy, exp(): any value
     opus_packet_pad        contract stub (C07-H3)
   Case selectors: -DFSI (rate), -DDUR (0..5 = 2.5,5,10,20,40,60 ms), -DCH (API channels), -DLD (1: RESTRICTED_LOWDELAY), -DMODESEL (coding mode), -DMAXB (budget bound;
   redundancy needs >= 32 bytes in SILK-only mono and >= 63 in hybrid). */
#include "common.h"
#include <stdarg.h>
/* bulk copies inside this translation unit (delay buffer / pcm_buf / redundancy move) are reduced to their two ends: first and last element
   are read and written, so a region that leaves its object is still a bounds failure, without byte-updating a 60 KB struct thousands of
   times.  (celt/entenc.c is a separate unit and keeps the real memmove.) */
static void vt_touch_copy(void *dst, const void *src, long n, unsigned sz){
  VASSERT(n>=0,"copy length not negative");
  if(n>0){ unsigned char a=((const unsigned char*)src)[0], b=((const unsigned char*)src)[n*sz-1]; ((unsigned char*)dst)[0]=a; ((unsigned char*)dst)[n*sz-1]=b; } }
static void vt_touch_clear(void *dst, long n, unsigned sz){
  VASSERT(n>=0,"clear length not negative");
  if(n>0){ ((unsigned char*)dst)[0]=0; ((unsigned char*)dst)[n*sz-1]=0; } }
#define OVERRIDE_OPUS_COPY
#define OVERRIDE_OPUS_MOVE
#define OVERRIDE_OPUS_CLEAR
#define OPUS_COPY(dst,src,n) vt_touch_copy((dst),(src),(long)(n),sizeof(*(dst)))
#define OPUS_MOVE(dst,src,n) vt_touch_copy((dst),(src),(long)(n),sizeof(*(dst)))
#define OPUS_CLEAR(dst,n) vt_touch_clear((dst),(long)(n),sizeof(*(dst)))
#define hp_cutoff hp_cutoff_REAL
#define dc_reject dc_reject_REAL
#define gain_fade gain_fade_REAL
#define stereo_fade stereo_fade_REAL
#define compute_frame_energy compute_frame_energy_REAL
#define celt_inner_prod_c celt_inner_prod_c_REAL
#include "opus_encoder.c"
#undef hp_cutoff
#undef dc_reject
#undef gain_fade
#undef stereo_fade
#undef compute_frame_energy
#undef celt_inner_prod_c
#include "check_control_input.c"

#ifndef MAXB
#define MAXB 80
#endif
static const int FSV[5]={8000,12000,16000,24000,48000};
static const int NUM[6]={1,2,4,8,16,24};
#define FS (FSV[FSI])
#define FRAME (NUM[DUR]*(FS/400))

/* ---- small environment ---- */
static celt_coef dummy_window[120];
static CELTMode dummy_mode;
static int g_celt_channels=-1, g_end_band=-1, g_start_band=-1, g_celt_bitrate=-2, g_celt_vbr=-1;
int celt_encoder_ctl(CELTEncoder *st, int request, ...){
  va_list ap; va_start(ap,request);
  if(request==CELT_GET_MODE_REQUEST){ const CELTMode **v=va_arg(ap,const CELTMode**); *v=&dummy_mode; }
  else if(request==OPUS_GET_FINAL_RANGE_REQUEST){ opus_uint32 *v=va_arg(ap,opus_uint32*); *v=vt_uint(); }
  else if(request==CELT_SET_CHANNELS_REQUEST){ g_celt_channels=va_arg(ap,opus_int32); }
  else if(request==CELT_SET_END_BAND_REQUEST){ g_end_band=va_arg(ap,opus_int32); }
  else if(request==CELT_SET_START_BAND_REQUEST){ g_start_band=va_arg(ap,opus_int32); }
  else if(request==OPUS_SET_BITRATE_REQUEST){ opus_int32 v=va_arg(ap,opus_int32); if(v>500||v==OPUS_BITRATE_MAX) g_celt_bitrate=v; /* the real ctl rejects <= 500 and keeps the previous value */ }
  else if(request==OPUS_SET_VBR_REQUEST){ g_celt_vbr=va_arg(ap,opus_int32); }
  va_end(ap); return OPUS_OK; }
static const opus_res *g_pcm; static int g_pcm_n;
opus_val32 stub_inner(const opus_val16 *x, const opus_val16 *y, int N){ opus_val16 a=x[0], b=x[N-1]; (void)a; (void)b;
  VASSERT(x==y && N==g_pcm_n,"the NaN / huge-input guard inspects every sample of the filtered frame"); return vt_float(); }
double exp(double x){ float r=vt_float(); __CPROVER_assume(r>=0.f && r<=1.f); return x<=0.0? (double)r : 1.0; }
static opus_res rd(const opus_res *p){ return *p; }
void stub_hp(const opus_res *in, opus_int32 cutoff_Hz, opus_res *out, opus_val32 *hp_mem, int len, int channels, opus_int32 Fs, int arch){
  VASSERT(in==g_pcm && len*channels==g_pcm_n,"the filter reads exactly the submitted frame"); rd(in); rd(in+len*channels-1);
  out[0]=vt_float(); out[len*channels-1]=vt_float(); }
void stub_dc(const opus_res *in, opus_int32 cutoff_Hz, opus_res *out, opus_val32 *hp_mem, int len, int channels, opus_int32 Fs){
  VASSERT(in==g_pcm && len*channels==g_pcm_n,"the filter reads exactly the submitted frame"); rd(in); rd(in+len*channels-1);
  out[0]=vt_float(); out[len*channels-1]=vt_float(); }
void stub_gain_fade(const opus_res *in, opus_res *out, opus_val16 g1, opus_val16 g2, int overlap48, int frame_size, int channels, const celt_coef *window, opus_int32 Fs){
  rd(in); rd(in+frame_size*channels-1); out[0]=vt_float(); out[frame_size*channels-1]=vt_float(); }
void stub_stereo_fade(const opus_res *in, opus_res *out, opus_val16 g1, opus_val16 g2, int overlap48, int frame_size, int channels, const celt_coef *window, opus_int32 Fs){
  rd(in); rd(in+frame_size*channels-1); out[0]=vt_float(); out[frame_size*channels-1]=vt_float(); }
opus_val32 stub_energy(const opus_res *pcm, int frame_size, int channels, int arch){ float w=vt_float(); __CPROVER_assume(w>=0.f&&w<=1e10f); rd(pcm+frame_size*channels-1); return w; }
int opus_packet_pad(unsigned char *data, opus_int32 len, opus_int32 new_len){
  if(len<1) return OPUS_BAD_ARG; if(len==new_len) return OPUS_OK; if(len>new_len) return OPUS_BAD_ARG;
  unsigned char t=data[0]; int cnt = (t&3)==0 ? 1 : (t&3)==3 ? (data[1]&0x3F) : 2;
  data[new_len-1]=0; data[0]=(t&0xFC)|3; data[1]=(unsigned char)(cnt|0x40); return OPUS_OK; }

/* ---- SILK ---- */
static OpusEncoder *g_st; static int g_frame, g_maxbytes; static unsigned char *g_data;
static int g_silk_calls, g_silk_prefills, g_silk_activity=-1, g_silk_dtx, g_silk_bust;
opus_int silk_Encode(void *encState, silk_EncControlStruct *c, const opus_res *samplesIn, opus_int nSamplesIn, ec_enc *enc, opus_int32 *nBytesOut, const opus_int prefillFlag, int activity){
  VASSERT(encState==(char*)g_st+g_st->silk_enc_offset,"SILK is called on the encoder's own SILK state");
  VASSERT(check_control_input(c)==SILK_NO_ERROR,"the SILK control structure is valid");
  VASSERT(c->nChannelsAPI==g_st->channels && c->nChannelsInternal==g_st->stream_channels,"SILK channel counts as decided");
  VASSERT(c->API_sampleRate==g_st->Fs,"SILK API rate");
  rd(samplesIn); rd(samplesIn+nSamplesIn*c->nChannelsAPI-1);
  if(prefillFlag){ g_silk_prefills++; VASSERT(nSamplesIn==g_st->encoder_buffer,"prefill feeds the delay buffer"); return 0; }
  g_silk_calls++; g_silk_activity=activity;
  VASSERT(nSamplesIn==g_frame && c->payloadSize_ms*g_st->Fs==1000*g_frame,"SILK payload duration is the frame duration");
  VASSERT(c->maxBits>=0 && (g_st->mode==MODE_HYBRID || c->maxBits<=(g_maxbytes-1)*8),"SILK bit cap not negative, and inside the packet in SILK-only mode (the hybrid cap comes from the rate table and may exceed a tiny budget; overruns are caught by the budget check after SILK)");
  VASSERT(c->bitRate>=0 || g_st->energy_masking!=0,"SILK target rate not negative");
  VASSERT(enc->buf==g_data+1 && enc->storage==(opus_uint32)(g_maxbytes-1),"SILK codes into the packet behind the TOC byte");
  VASSERT(g_st->mode!=MODE_HYBRID || (c->minInternalSampleRate==16000 && c->maxInternalSampleRate==16000),"hybrid pins SILK at 16 kHz");
  /* any SILK encoder: any internal rate allowed by the control structure, any flags */
  { int r=vt_range(0,2); c->internalSampleRate= r==0?8000: r==1?12000:16000; __CPROVER_assume(c->internalSampleRate>=c->minInternalSampleRate && c->internalSampleRate<=c->maxInternalSampleRate); }
  c->switchReady=vt_range(0,1); c->signalType=vt_range(0,2); c->offset=vt_range(0,1); c->stereoWidth_Q14=vt_range(0,16384); c->allowBandwidthSwitch=vt_range(0,1); c->inWBmodeWithoutVariableLP=vt_range(0,1);
  /* the coder is left in any consistent state after writing any number of bytes (C08-H5 accounting invariant) */
  { int k=vt_range(0,MAXB+8); int ext=vt_range(0,2); int rem=vt_range(-1,255); __CPROVER_assume(rem>=0 || (k==0 && ext==0));
    opus_uint32 rng=vt_uint(); __CPROVER_assume(rng>(1u<<23) && rng<=(1u<<31)); opus_uint32 val=vt_uint(); __CPROVER_assume(val<(1u<<31));
    if((opus_uint32)k<=enc->storage){ if(k>0){ enc->buf[0]=vt_uchar(); enc->buf[k-1]=vt_uchar(); } enc->offs=k; }
    else { enc->offs=enc->storage; enc->error=-1; g_silk_bust=1; if(enc->storage>0) enc->buf[enc->storage-1]=vt_uchar(); }
    enc->ext=ext; enc->rem=rem; enc->rng=rng; enc->val=val; enc->nbits_total=33+8*(k+ext+(rem>=0)); }
  if(vt_range(0,1)){ *nBytesOut=0; g_silk_dtx=1; } else *nBytesOut=(ec_tell(enc)+7)>>3;
  return 0;
}
/* ---- CELT ---- */
static int g_celt_main_calls, g_celt_red_calls, g_celt_prefills, g_celt_ret=-1;
int celt_encode_with_ec(CELTEncoder *st, const opus_res *pcm, int frame_size, unsigned char *compressed, int nb, ec_enc *enc){
  if(nb<2 || pcm==0) return OPUS_BAD_ARG;
  rd(pcm); rd(pcm+frame_size*g_st->channels-1);
  if(enc==0){
    compressed[0]=vt_uchar(); compressed[nb-1]=vt_uchar();
    if(frame_size==g_st->Fs/400){ g_celt_prefills++; VASSERT(nb==2,"CELT prefill codes into a 2-byte dummy"); }
    else { g_celt_red_calls++; VASSERT(frame_size==g_st->Fs/200,"the redundant frame is 5 ms");
           VASSERT(compressed>=g_data+1 && compressed+nb<=g_data+g_maxbytes,"the redundant frame lies inside the packet");
           VASSERT(g_start_band==0 && g_celt_vbr==0 && g_celt_bitrate==OPUS_BITRATE_MAX,"the redundant frame is full-band CBR"); }
    return nb; }
  g_celt_main_calls++;
  VASSERT(frame_size==g_frame,"CELT codes the frame duration");
  VASSERT(enc->buf==g_data+1 && enc->storage==(opus_uint32)nb,"CELT shares the packet's coder, shrunk to its byte count");
  VASSERT(ec_tell(enc)<=8*nb,"CELT is only called while the budget holds");
  VASSERT(g_celt_channels==g_st->stream_channels,"CELT channel count as decided");
  VASSERT(g_start_band==(g_st->mode==MODE_HYBRID?17:0),"CELT start band: 17 in hybrid, 0 in CELT-only");
  { int r=vt_range(2,1275); __CPROVER_assume(r<=nb); if(!g_st->use_vbr) __CPROVER_assume(r==nb);
    enc->buf[0]=vt_uchar(); enc->buf[r-1]=vt_uchar(); { opus_uint32 g=vt_uint(); __CPROVER_assume(g>(1u<<23)); enc->rng=g; } enc->storage=r; enc->offs=r; enc->end_offs=0; enc->nbits_total=33+8*r-8; g_celt_ret=r; return r; }
}

void harness(void){
  /* static object: zero-initialised and therefore cheap; every field the function reads is then given an arbitrary value below (fields it does
     not read keep 0: delay buffer and filter memories are data only).  The SILK state is a real silk_encoder so that the function's typed
     read of state_Fxx[0].sCmn.variable_HP_smth1_Q15 is inside its object. */
  static struct { OpusEncoder e; silk_encoder silk; char celt[64]; } S; OpusEncoder *st=&S.e;
  st->silk_enc_offset=(int)((char*)&S.silk-(char*)&S.e); st->celt_enc_offset=(int)((char*)&S.celt[0]-(char*)&S.e);
  st->application=vt_int(); st->use_vbr=vt_int(); st->vbr_constraint=vt_int(); st->use_dtx=vt_int(); st->lfe=vt_int();
  st->silk_mode.complexity=vt_int(); st->silk_mode.packetLossPercentage=vt_int(); st->silk_mode.LBRR_coded=vt_int(); st->silk_mode.useInBandFEC=vt_int();
  st->silk_mode.useDTX=vt_int(); st->silk_mode.reducedDependency=vt_int(); st->silk_mode.stereoWidth_Q14=vt_int(); st->silk_mode.bitRate=vt_int();
  st->silk_mode.opusCanSwitch=vt_int(); st->silk_mode.switchReady=vt_int(); st->silk_mode.signalType=vt_int(); st->silk_mode.offset=vt_int();
  st->silk_mode.maxBits=vt_int(); st->silk_mode.internalSampleRate=vt_int(); st->silk_mode.toMono=vt_int();
  st->stream_channels=vt_int(); st->mode=vt_int(); st->prev_mode=vt_int(); st->first=vt_int(); st->bandwidth=vt_int(); st->silk_bw_switch=vt_int(); st->nonfinal_frame=vt_int();
  st->peak_signal_energy=vt_float(); st->nb_no_activity_ms_Q1=vt_int(); st->variable_HP_smth2_Q15=vt_int(); S.silk.state_Fxx[0].sCmn.variable_HP_smth1_Q15=vt_int();
  st->hybrid_stereo_width_Q14=vt_int(); st->prev_HB_gain=vt_float(); st->bitrate_bps=vt_int(); st->prev_channels=vt_int(); st->prev_framesize=vt_int(); st->rangeFinal=vt_uint();
  dummy_mode.overlap=120; dummy_mode.window=dummy_window;
  st->Fs=FS; st->channels=CH; st->arch=0;
  st->encoder_buffer=FS/100; st->delay_compensation=FS/250;                                   /* opus_encoder_init */
  /* ---- invariant of OpusEncoder (as in C02_glue.c) ---- */
#if LD
  st->application=OPUS_APPLICATION_RESTRICTED_LOWDELAY;
#else
  __CPROVER_assume(st->application==OPUS_APPLICATION_VOIP||st->application==OPUS_APPLICATION_AUDIO);
#endif
  __CPROVER_assume(st->use_vbr==0||st->use_vbr==1); __CPROVER_assume(st->vbr_constraint==0||st->vbr_constraint==1);
  __CPROVER_assume(st->use_dtx==0||st->use_dtx==1);
  __CPROVER_assume(st->silk_mode.complexity>=0&&st->silk_mode.complexity<=10);
  __CPROVER_assume(st->silk_mode.packetLossPercentage>=0&&st->silk_mode.packetLossPercentage<=100);
  __CPROVER_assume(st->silk_mode.LBRR_coded==0||st->silk_mode.LBRR_coded==1);
  __CPROVER_assume(st->silk_mode.useInBandFEC==0||st->silk_mode.useInBandFEC==1);
  __CPROVER_assume(st->silk_mode.useDTX==0||st->silk_mode.useDTX==1);
  __CPROVER_assume(st->silk_mode.reducedDependency==0||st->silk_mode.reducedDependency==1);
  st->silk_mode.API_sampleRate=FS;                                                              /* opus_encoder_init */
  __CPROVER_assume(st->lfe==0||st->lfe==1);
  __CPROVER_assume(st->stream_channels>=1&&st->stream_channels<=st->channels);
  __CPROVER_assume(st->mode>=MODE_SILK_ONLY&&st->mode<=MODE_CELT_ONLY);
#ifdef MODESEL
  __CPROVER_assume(st->mode==MODESEL);           /* case selector: 1000 SILK-only, 1001 hybrid, 1002 CELT-only */
#endif
  __CPROVER_assume(st->prev_mode==0||(st->prev_mode>=MODE_SILK_ONLY&&st->prev_mode<=MODE_CELT_ONLY));
#if LD
  __CPROVER_assume(st->mode==MODE_CELT_ONLY && (st->prev_mode==0||st->prev_mode==MODE_CELT_ONLY));
#endif
  __CPROVER_assume(st->first==0||st->first==1); __CPROVER_assume(!st->first || st->prev_mode==0);
  __CPROVER_assume(st->bandwidth>=OPUS_BANDWIDTH_NARROWBAND&&st->bandwidth<=OPUS_BANDWIDTH_FULLBAND);
  __CPROVER_assume(st->silk_bw_switch==0||st->silk_bw_switch==1); __CPROVER_assume(st->nonfinal_frame==0||st->nonfinal_frame==1);
  __CPROVER_assume(st->peak_signal_energy>=0.f && st->peak_signal_energy<=1e10f);
  __CPROVER_assume(st->nb_no_activity_ms_Q1>=0 && st->nb_no_activity_ms_Q1<=(NB_SPEECH_FRAMES_BEFORE_DTX+MAX_CONSECUTIVE_DTX)*20*2);  /* decide_dtx_mode (C20-H1) */
  __CPROVER_assume(st->variable_HP_smth2_Q15>=0 && st->variable_HP_smth2_Q15<=(1<<20));
  __CPROVER_assume(S.silk.state_Fxx[0].sCmn.variable_HP_smth1_Q15>=0 && S.silk.state_Fxx[0].sCmn.variable_HP_smth1_Q15<=(1<<20));
  __CPROVER_assume(st->hybrid_stereo_width_Q14>=0&&st->hybrid_stereo_width_Q14<=16384);
  __CPROVER_assume(st->silk_mode.stereoWidth_Q14>=0&&st->silk_mode.stereoWidth_Q14<=16384);
  __CPROVER_assume(st->prev_HB_gain>=0.f && st->prev_HB_gain<=1.f);
  st->energy_masking=0;                                                                          /* bound: no surround masking */
  /* ---- established by opus_encode_native before the call (asserted at C02_glue.c's frame-encoder stub) ---- */
  __CPROVER_assume(st->mode!=MODE_HYBRID || st->bandwidth>=OPUS_BANDWIDTH_SUPERWIDEBAND);
  __CPROVER_assume(st->mode!=MODE_SILK_ONLY || st->bandwidth<=OPUS_BANDWIDTH_WIDEBAND);
  __CPROVER_assume(st->mode!=MODE_CELT_ONLY || st->bandwidth!=OPUS_BANDWIDTH_MEDIUMBAND);
  int frame_size=FRAME;
  __CPROVER_assume(st->mode!=MODE_CELT_ONLY || DUR<=3);
  __CPROVER_assume(st->mode!=MODE_HYBRID || DUR==2 || DUR==3);
  __CPROVER_assume(st->mode!=MODE_SILK_ONLY || DUR>=2);
  int max_data_bytes=vt_range(3,MAXB);
  /* opus_encode_native leaves the low-budget path only with >= 3 bytes per frame by rate as well as by room (asserted at C02_glue.c's stub) */
  __CPROVER_assume((long long)st->bitrate_bps*frame_size>=24LL*FS && (st->bitrate_bps<=300000*CH || (long long)st->bitrate_bps*frame_size<=10208LL*FS));
  int redundancy=vt_range(0,1), celt_to_silk=vt_range(0,1), prefill=vt_range(0,1), to_celt=vt_range(0,1), is_silence=vt_range(0,1), float_api=vt_range(0,1), first_frame=vt_range(0,1);
  __CPROVER_assume(!redundancy || st->mode!=MODE_CELT_ONLY || 1);
  opus_int32 equiv_rate=vt_int(); __CPROVER_assume(equiv_rate>=0 && equiv_rate<=1500000);
  AnalysisInfo info; info.valid=vt_range(0,1); info.activity_probability=vt_float(); __CPROVER_assume(info.activity_probability>=0.f&&info.activity_probability<=1.f);
  /* the packet buffer ENDS at the end of its object: a store at or behind data[max_data_bytes] is a bounds failure */
  unsigned char store[MAXB+1]; unsigned char *data=store+(MAXB+1-max_data_bytes);
  opus_res *pcm=(opus_res*)vt_alloc(sizeof(opus_res)*FRAME*CH);
  g_st=st; g_frame=frame_size; g_maxbytes=max_data_bytes; g_data=data; g_pcm=pcm; g_pcm_n=FRAME*CH;
  OpusEncoder before; before.mode=st->mode; before.use_vbr=st->use_vbr; before.use_dtx=st->use_dtx; before.nb_no_activity_ms_Q1=st->nb_no_activity_ms_Q1; before.stream_channels=st->stream_channels; before.bandwidth=st->bandwidth;
  int r=opus_encode_frame_native(st, pcm, frame_size, data, max_data_bytes, float_api, first_frame, &info, is_silence, redundancy, celt_to_silk, prefill, equiv_rate, to_celt);
  /* ---- C05: result range; nothing outside the budget (bounds checks) ---- */
  VASSERT(r!=OPUS_INTERNAL_ERROR,"never an internal error: CELT is never handed fewer than 2 bytes, padding never fails");
  VASSERT(r!=OPUS_BUFFER_TOO_SMALL,"three bytes always suffice");
  VASSERT(r>=1 && r<=max_data_bytes,"1 <= length <= max_data_bytes");
  if(r>=1){
    int dq1=(int)(2000LL*frame_size/FS);                      /* frame duration in ms, Q1: 5,10,20,40,80,120 */
    int lim1=NB_SPEECH_FRAMES_BEFORE_DTX*20*2, lim2=(NB_SPEECH_FRAMES_BEFORE_DTX+MAX_CONSECUTIVE_DTX)*20*2;
    int c0=before.nb_no_activity_ms_Q1, c1=st->nb_no_activity_ms_Q1;
    int silk_dtx_return = before.mode!=MODE_CELT_ONLY && g_silk_dtx;
    /* ---- C02: the TOC announces what was coded ---- */
    VASSERT(opus_packet_get_samples_per_frame(data,FS)==frame_size,"TOC announces the frame duration");
    VASSERT(opus_packet_get_nb_channels(data)==before.stream_channels,"TOC announces the coded channel count");
    VASSERT(((data[0]&0x80)!=0)==(before.mode==MODE_CELT_ONLY) && (before.mode!=MODE_HYBRID || (data[0]&0xE0)==0x60),"TOC announces the coding mode");
    if(before.mode!=MODE_SILK_ONLY) VASSERT(opus_packet_get_bandwidth(data)==before.bandwidth || (before.bandwidth==OPUS_BANDWIDTH_MEDIUMBAND),"TOC announces the decided bandwidth");
    else VASSERT(opus_packet_get_bandwidth(data)==(st->silk_mode.internalSampleRate==8000?OPUS_BANDWIDTH_NARROWBAND:st->silk_mode.internalSampleRate==12000?OPUS_BANDWIDTH_MEDIUMBAND:OPUS_BANDWIDTH_WIDEBAND),"SILK-only TOC announces SILK's internal bandwidth");
    VASSERT((data[0]&3)==0 || (!before.use_vbr && (data[0]&3)==3),"a single frame is code 0, or code 3 once padded to the CBR size");
    /* ---- C20: DTX decision and counter at the call site ---- */
    if(!silk_dtx_return){
      if(before.use_dtx && (info.valid||is_silence)){
        VASSERT(c1==0 || c1==c0+dq1 || (c1==lim1 && c0+dq1>lim2),"DTX counter advances by exactly the frame duration (Q1 ms), or resets");
        if(is_silence) VASSERT(c1!=0 || c0+dq1==0,"digital silence is never counted as activity");
        if(c1==c0+dq1 && c1>lim1) VASSERT(r==1 && st->rangeFinal==0,"inside the DTX window the packet is the TOC alone, final range 0");
        if(r>1 || (r==1 && 0)) VASSERT(!(c1==c0+dq1 && c1>lim1),"a coded packet is not inside the DTX window");
      } else VASSERT(c1==0,"DTX counter cleared when DTX is off or no activity decision exists");
    } else VASSERT(r==1 && st->rangeFinal==0,"SILK DTX: TOC alone, final range 0");
    /* ---- C05: CBR fills the budget ---- */
    if(!before.use_vbr && r>1) VASSERT(r==max_data_bytes,"CBR: the frame is padded to exactly the budget it was handed");
    if(r==1) VASSERT(st->rangeFinal==0,"a TOC-only packet reports final range 0");
    /* ---- bookkeeping for the next frame ---- */
    if(!silk_dtx_return) VASSERT(st->prev_mode==(to_celt?MODE_CELT_ONLY:before.mode) && st->prev_channels==before.stream_channels && st->prev_framesize==frame_size && st->first==0,"previous mode/channels/frame size recorded");
    VASSERT(g_end_band==(before.mode==MODE_SILK_ONLY? g_end_band : (before.bandwidth==OPUS_BANDWIDTH_NARROWBAND?13:before.bandwidth<=OPUS_BANDWIDTH_WIDEBAND?17:before.bandwidth==OPUS_BANDWIDTH_SUPERWIDEBAND?19:21)) || silk_dtx_return,"CELT end band matches the bandwidth");
    if(before.mode==MODE_CELT_ONLY) VASSERT(g_silk_calls==0 && g_celt_main_calls==1 && g_celt_red_calls==0,"CELT-only: one CELT call, no SILK, no redundancy");
    if(before.mode==MODE_SILK_ONLY) VASSERT(g_silk_calls==1 && g_celt_main_calls==0,"SILK-only: one SILK call, CELT only for redundancy");
    VASSERT(g_celt_red_calls<=1,"at most one redundant frame");
  }
#if defined(MODESEL) && MODESEL==1002
  VWITNESS(r>3 && g_celt_main_calls==1);
#elif defined(MODESEL) && MODESEL==1001
  VWITNESS(r>3 && g_silk_calls==1 && g_celt_main_calls==1);
#elif MAXB>=40 && CH==1
  VWITNESS(r>3 && g_silk_calls==1 && g_celt_red_calls==1 && before.mode==MODE_SILK_ONLY);
#else
  VWITNESS(r>3 && g_silk_calls==1 && before.mode==MODE_SILK_ONLY);
#endif
}
