/* C02-H2: TOC synthesis (static gen_toc of src/opus_encoder.c) for every legal (mode, frame duration, bandwidth, channels), read back
   by the packet-inspection helpers: mode, samples per frame, bandwidth and channel count are the ones that were encoded. */
#include "common.h"
#include "opus_encoder.c"
static int get_mode(const unsigned char *d){ return (d[0]&0x80)?MODE_CELT_ONLY:((d[0]&0x60)==0x60?MODE_HYBRID:MODE_SILK_ONLY); } /* RFC 6716 table 2 */
void harness(void){
  static const int FS[5]={8000,12000,16000,24000,48000};
  int Fs=FS[vt_range(0,4)];
  int mode=vt_range(MODE_SILK_ONLY,MODE_CELT_ONLY), bw=vt_range(OPUS_BANDWIDTH_NARROWBAND,OPUS_BANDWIDTH_FULLBAND), ch=vt_range(1,2);
  int dur=vt_range(0,5); static const int N25[6]={1,2,4,8,16,24};          /* 2.5,5,10,20,40,60 ms: durations a single frame can have */
  int frame_size=N25[dur]*(Fs/400);
  /* legal combinations (RFC 6716 table 2): SILK 10-60 ms NB/MB/WB; hybrid 10/20 ms SWB/FB; CELT 2.5-20 ms NB/WB/SWB/FB */
  if(mode==MODE_SILK_ONLY) __CPROVER_assume(dur>=2 && bw<=OPUS_BANDWIDTH_WIDEBAND);
  else if(mode==MODE_HYBRID) __CPROVER_assume((dur==2||dur==3) && bw>=OPUS_BANDWIDTH_SUPERWIDEBAND);
  else __CPROVER_assume(dur<=3 && bw!=OPUS_BANDWIDTH_MEDIUMBAND);
  unsigned char toc=gen_toc(mode,Fs/frame_size,bw,ch);
  VASSERT((toc&3)==0,"frame-count code left at 0");
  VASSERT(get_mode(&toc)==mode,"mode read back");
  VASSERT(opus_packet_get_samples_per_frame(&toc,Fs)==frame_size,"frame duration read back at the encoder's rate");
  VASSERT(opus_packet_get_bandwidth(&toc)==bw,"bandwidth read back");
  VASSERT(opus_packet_get_nb_channels(&toc)==ch,"channel count read back");
  VWITNESS(mode==MODE_HYBRID && ch==2);
}
