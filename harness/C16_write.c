/* C16-H2a: leaf lemmas of the extension generator, write_extension / write_extension_payload (static in src/extensions.c), on an
   exact-size output object: refuses exactly when the extension does not fit and then has written nothing outside the buffer (any
   out-of-buffer store is a bounds failure), returns pos + coded size, the dry run (data==NULL) reports the same size, bytes in front of pos
   are untouched, and the real leaf parser skip_extension reads back exactly what was written (header size, payload bytes).
   -DXLEN = payload length (case selector; the lacing boundaries 254/255/256/509/510/511 are separate runs); buffer length any value up to
   the coded size + 8, pos 0..3 */
#include "common.h"
#include "extensions.c"
void harness(void){
  int n=vt_range(0,XLEN+XLEN/255+8);   /* around the size needed: every refusal/acceptance boundary is inside */
  VT_TAILBUF(buf,n,XLEN+XLEN/255+8);       /* buf[0..n) ends at the end of its object: a store at or behind buf[n] is a bounds failure */
  int pos=vt_range(0,3); __CPROVER_assume(pos<=n);
  opus_extension_data e; e.id=vt_range(3,127); e.frame=0; e.len=XLEN;     /* case selector: a symbolic length makes the payload copy a symbolic-size memcpy into a symbolic-size object (out of memory) */
  unsigned char pay[XLEN>0?XLEN:1]; e.data=pay;     /* (a second symbolic-size object exhausts memory; over-reads of the payload are not the subject) */
  int last=vt_range(0,1);
  int kb=vt_range(0,3); unsigned char before=0; if(kb<pos){ before=buf[kb]; }
  int kp=vt_range(0,XLEN>0?XLEN-1:0); unsigned char pv=0; if(kp<e.len){ pv=vt_uchar(); pay[kp]=pv; }
  /* coded size by the format: ID byte, then (short) L payload bytes or (long, not last) lacing bytes 255..255,r with one byte per started 255 */
  int bad = e.id<32 ? (e.len<0||e.len>1) : (e.len<0);
  long long need = 1 + (long long)(e.len>0?e.len:0) + ((e.id>=32 && !last) ? 1+(e.len>0?e.len:0)/255 : 0);
  int dry=write_extension((unsigned char*)0,n,pos,&e,last);
  int r=write_extension(buf,n,pos,&e,last);
  VASSERT(dry==r,"dry run (data==NULL) reports the same result as the real write");
  if(n-pos<1) VASSERT(r==OPUS_BUFFER_TOO_SMALL,"no room for the ID byte: refused");
  else if(bad) VASSERT(r==OPUS_BAD_ARG,"illegal payload length for the ID class: OPUS_BAD_ARG");
  else if(need>n-pos) VASSERT(r==OPUS_BUFFER_TOO_SMALL,"extension that does not fit is refused");
  else {
    VASSERT(r==pos+need,"success: returns pos + coded size");
    if(kb<pos) VASSERT(buf[kb]==before,"bytes in front of pos untouched");
    VASSERT(buf[pos]==(e.id<<1)+(e.id<32? e.len : !last),"ID byte = id<<1 | L");
    if(!last || e.id<32){
      /* read back with the real leaf parser */
      const unsigned char *q=buf+pos; opus_int32 hs=-1;
      opus_int32 rem=skip_extension(&q,n-pos,&hs);
      VASSERT(rem==n-pos-need && q==buf+r,"parser consumes exactly what the generator wrote");
      VASSERT(hs==need-(e.len>0?e.len:0),"parser finds the payload right behind the header the generator wrote");
      if(kp<e.len) VASSERT(buf[pos+hs+kp]==pv,"payload bytes copied verbatim");
    } else {
      if(kp<e.len) VASSERT(buf[pos+1+kp]==pv,"last long extension: payload follows the ID byte, no length");
    }
  }
#if XLEN<0
  VWITNESS(r==OPUS_BAD_ARG);
#else
  VWITNESS(r>0 && e.id>=32 && !last);
#endif
}
