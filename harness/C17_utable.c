/* C17-H1: the static PVQ U(n,k) table obeys U(n,k)=U(n-1,k)+U(n,k-1)+U(n-1,k-1) exactly (no 32-bit overflow),
   for every stored entry (symbolic (n,k)); */
#include "common.h"
#include "cwrs.c"
/* row n of CELT_PVQ_U_DATA holds K = n .. n+rowlen(n)-1; row starts are read off the real row-pointer table */
#define NDATA ((int)(sizeof(CELT_PVQ_U_DATA)/sizeof(CELT_PVQ_U_DATA[0])))
static int rowstart(int n){ return n>=15 ? NDATA : (int)(CELT_PVQ_U_ROW[n]-CELT_PVQ_U_DATA)+n; }
static int rowlen(int n){ return rowstart(n+1)-rowstart(n); }
static int stored(int a,int b){ int lo=a<b?a:b, hi=a<b?b:a; return lo>=0 && lo<=14 && hi>=lo && hi<lo+rowlen(lo); }
void harness(void){
  int n=vt_int(), k=vt_int();
  __CPROVER_assume(n>=1&&n<=14&&k>=1&&k<=200);
  __CPROVER_assume(stored(n,k)&&stored(n-1,k)&&stored(n,k-1)&&stored(n-1,k-1));
  /* row pointers are consistent with the row lengths */
  { int r=vt_range(0,14); VASSERT(rowstart(0)==0 && rowlen(r)>=1 && rowstart(r)+rowlen(r)<=NDATA,"rows are contiguous, non-empty, inside the data array"); }
  opus_uint32 u=CELT_PVQ_U(n,k), u10=CELT_PVQ_U(n-1,k), u01=CELT_PVQ_U(n,k-1), u11=CELT_PVQ_U(n-1,k-1);
  unsigned long long s=(unsigned long long)u10+u01+u11;
  VASSERT(s==(unsigned long long)u,"U recurrence holds exactly, no 32-bit overflow");
  /* V(N,K)=U(N,K)+U(N,K+1) fitting 32 bits is decided for the (N,K) the pulse cache admits in C17_pcache.c */
  VASSERT(CELT_PVQ_U(0,0)==1 && CELT_PVQ_U(1,1)==1,"base cases");
  if(n==1) VASSERT(u==1,"U(1,k)=1");
  VWITNESS(n==7&&k==40);
}
