/* C12 encoder: OPUS_RESET_STATE == freshly initialised object carrying the same settings, decided per sub-state (see C12_dec_parts.c).
   PART 2: CELT encoder state (real celt_encoder_init vs real opus_custom_encoder_ctl(OPUS_RESET_STATE) from any signal state, any settings).
   PART 3: top-level OpusEncoder (real opus_encoder_init vs real opus_encoder_ctl(OPUS_RESET_STATE), real tonality_analysis_init/_reset;
           the SILK/CELT sub-initialisers are recording stubs: reset re-runs silk_InitEncoder itself, and the CELT part is PART 2).
   Also: init is independent of the previous memory contents (two differently havocked objects end byte-equal).  -DPART -DCH */
#include "common.h"
#if PART==2
#include "celt_encoder.c"
#define CELT_TAIL (((CH)*120-1)*4 + (CH)*COMBFILTER_MAXPERIOD*4 + 4*(CH)*21*4)
typedef struct { CELTEncoder c; char tail[CELT_TAIL]; unsigned char guard[8]; } celt_obj;
void harness(void){
  static const opus_int32 RATES[5]={8000,12000,16000,24000,48000};
  opus_int32 Fs=RATES[vt_range(0,4)];
  celt_obj A, A2, B;
  int size=celt_encoder_get_size(CH);
  VASSERT(size==(int)offsetof(celt_obj,guard),"harness object layout == library layout");
  VASSERT(celt_encoder_init(&A.c,Fs,CH,0)==OPUS_OK && celt_encoder_init(&A2.c,Fs,CH,0)==OPUS_OK,"init ok");
  int k=vt_range(0,size-1);
  VASSERT(((unsigned char*)&A)[k]==((unsigned char*)&A2)[k],"CELT encoder init: state independent of previous memory contents");
  /* settings = every field in front of the marker, arbitrary but equal in both objects */
  CELTEncoder S;
  S.mode=A.c.mode; S.channels=CH; S.arch=0;
  __CPROVER_assume(S.stream_channels>=1 && S.stream_channels<=CH);
#define CFG(f) A.c.f=S.f; B.c.f=S.f;
  CFG(mode) CFG(channels) CFG(stream_channels) CFG(force_intra) CFG(clip) CFG(disable_pf) CFG(complexity) CFG(upsample) CFG(start) CFG(end)
  CFG(bitrate) CFG(vbr) CFG(signalling) CFG(constrained_vbr) CFG(loss_rate) CFG(lsb_depth) CFG(lfe) CFG(disable_inv) CFG(arch)
  VASSERT(offsetof(CELTEncoder,arch)+sizeof(int)<=offsetof(CELTEncoder,ENCODER_RESET_START) && offsetof(CELTEncoder,ENCODER_RESET_START)-offsetof(CELTEncoder,arch)<=8,
          "harness copies every field in front of the marker (a field added there must be added here)");
  unsigned char g0=vt_uchar(); int gi=vt_range(0,7); B.guard[gi]=g0;
  VASSERT(opus_custom_encoder_ctl(&B.c,OPUS_RESET_STATE)==OPUS_OK,"reset ok");
  VASSERT(((unsigned char*)&A)[k]==((unsigned char*)&B)[k],"CELT encoder: OPUS_RESET_STATE from any signal history == freshly initialised state with the same settings");
  VASSERT(B.guard[gi]==g0,"reset writes nothing behind celt_encoder_get_size() bytes");
  VASSERT(B.c.delayedIntra==1 && B.c.spread_decision==SPREAD_NORMAL && B.c.tonal_average==256 && B.c.vbr_reservoir==0 && B.c.rng==0,"known reset values");
  VWITNESS(k==size-1 && S.complexity==3);
}
#else
#include "opus_encoder.c"
#define SILK_SZ 64
#define CELT_SZ 64
static int g_celt_init, g_celt_reset, g_silk_init; static void *g_celt_ptr, *g_silk_ptr; static int g_cplx=-1, g_sig=-1;
int celt_encoder_ctl(CELTEncoder *st,int request,...){ va_list ap; va_start(ap,request); g_celt_ptr=st;
  if(request==OPUS_RESET_STATE) g_celt_reset++; else if(request==OPUS_SET_COMPLEXITY_REQUEST) g_cplx=va_arg(ap,opus_int32); else if(request==CELT_SET_SIGNALLING_REQUEST) g_sig=va_arg(ap,opus_int32);
  va_end(ap); return OPUS_OK; }
/* silk_InitEncoder fills the control struct by silk_QueryEncoder; modelled as writing arbitrary values into *encStatus */
opus_int silk_InitEncoder(void *s,int arch,silk_EncControlStruct *encStatus){ g_silk_init++; g_silk_ptr=s; silk_EncControlStruct h; *encStatus=h; return 0; }
int celt_encoder_init(CELTEncoder *st, opus_int32 Fs, int ch, int arch){ g_celt_init++; g_celt_ptr=st; return OPUS_OK; }
opus_int silk_Get_Encoder_Size(opus_int *n){ *n=SILK_SZ; return 0; }
int celt_encoder_get_size(int ch){ return CELT_SZ; }
typedef struct { OpusEncoder e; char rest[SILK_SZ+CELT_SZ+16]; unsigned char guard[8]; } top_obj;
void harness(void){
  static const opus_int32 RATES[5]={8000,12000,16000,24000,48000};
  opus_int32 Fs=RATES[vt_range(0,4)];
  int app= vt_range(0,2); app = app==0?OPUS_APPLICATION_VOIP: app==1?OPUS_APPLICATION_AUDIO:OPUS_APPLICATION_RESTRICTED_LOWDELAY;
  top_obj A, A2, B;
  int size=opus_encoder_get_size(CH);
  VASSERT(size==(int)(align(sizeof(OpusEncoder))+SILK_SZ+CELT_SZ) && size<=(int)offsetof(top_obj,guard),"size query == sum of the aligned sub-states");
  unsigned char g0=vt_uchar(); int gi=vt_range(0,7); A.guard[gi]=g0;
  VASSERT(opus_encoder_init(&A.e,Fs,CH,app)==OPUS_OK && opus_encoder_init(&A2.e,Fs,CH,app)==OPUS_OK,"init accepts legal arguments");
  VASSERT(A.guard[gi]==g0,"init writes nothing behind opus_encoder_get_size() bytes");
  VASSERT(g_cplx==A.e.silk_mode.complexity && g_sig==0 && g_celt_ptr==(char*)&A2.e+A2.e.celt_enc_offset,"CELT encoder gets signalling off and the SILK default complexity, at its offset");
  int k=vt_range(0,(int)sizeof(OpusEncoder)-1);
  /* silk_mode is filled by the stubbed silk_InitEncoder with arbitrary values, then overwritten field by field with the defaults: compare from behind it */
  if(k<(int)offsetof(OpusEncoder,silk_mode) || k>=(int)(offsetof(OpusEncoder,silk_mode)+sizeof(silk_EncControlStruct)))
    VASSERT(((unsigned char*)&A.e)[k]==((unsigned char*)&A2.e)[k],"encoder init: top-level state independent of previous memory contents");
  VASSERT(A.e.use_vbr==1 && A.e.vbr_constraint==1 && A.e.user_bitrate_bps==OPUS_AUTO && A.e.bitrate_bps==3000+Fs*CH && A.e.lsb_depth==24 && A.e.first==1 && A.e.mode==MODE_HYBRID
          && A.e.bandwidth==OPUS_BANDWIDTH_FULLBAND && A.e.stream_channels==CH && A.e.delay_compensation==Fs/250 && A.e.encoder_buffer==Fs/100 && A.e.silk_mode.complexity==9
          && A.e.analysis.Fs==Fs && A.e.analysis.application==app && A.e.analysis.mem_fill==0,"init: documented defaults");
  /* settings: every field in front of the marker, arbitrary but equal in the fresh object and in the one being reset */
  OpusEncoder S;
#define CFG(f) A.e.f=S.f; B.e.f=S.f;
  S.celt_enc_offset=A.e.celt_enc_offset; S.silk_enc_offset=A.e.silk_enc_offset; S.channels=CH; S.Fs=Fs; S.arch=0;
  CFG(celt_enc_offset) CFG(silk_enc_offset) CFG(silk_mode) CFG(application) CFG(channels) CFG(delay_compensation) CFG(force_channels) CFG(signal_type) CFG(user_bandwidth)
  CFG(max_bandwidth) CFG(user_forced_mode) CFG(voice_ratio) CFG(Fs) CFG(use_vbr) CFG(vbr_constraint) CFG(variable_duration) CFG(bitrate_bps) CFG(user_bitrate_bps)
  CFG(lsb_depth) CFG(encoder_buffer) CFG(lfe) CFG(arch) CFG(use_dtx) CFG(fec_config) CFG(analysis.arch) CFG(analysis.application) CFG(analysis.Fs)
  VASSERT(offsetof(OpusEncoder,analysis)==offsetof(OpusEncoder,fec_config)+sizeof(int) && offsetof(OpusEncoder,OPUS_ENCODER_RESET_START)==offsetof(OpusEncoder,analysis)+sizeof(TonalityAnalysisState)
          && offsetof(TonalityAnalysisState,TONALITY_ANALYSIS_RESET_START)==12,"harness copies every field in front of the markers (a field added there must be added here)");
  g_celt_reset=0; g_silk_init=0; B.guard[gi]=g0;
  VASSERT(opus_encoder_ctl(&B.e,OPUS_RESET_STATE)==OPUS_OK,"reset ok");
  VASSERT(((unsigned char*)&A.e)[k]==((unsigned char*)&B.e)[k],"top-level encoder state after OPUS_RESET_STATE == fresh state with the same settings");
  VASSERT(g_celt_reset==1 && g_celt_ptr==(char*)&B.e+B.e.celt_enc_offset,"CELT sub-state reset exactly once, at its offset");
  VASSERT(g_silk_init==1 && g_silk_ptr==(char*)&B.e+B.e.silk_enc_offset,"SILK sub-state re-initialised exactly once, at its offset");
  VASSERT(B.guard[gi]==g0,"reset writes nothing behind the object");
  VWITNESS(k==(int)sizeof(OpusEncoder)-1 && S.use_vbr==0);
}
#endif
