/* C01-H1 / C06 header helpers / C09 has_lbrr: packet-inspection functions on any bytes in an exact-size object.
   -DMAXLEN -DCODE=0..3 [-DCOUNTMAX=n -DVBRBIT=0|1] */
#include "common.h"
#include "opus.h"
#include "opus_private.h"
#include "rfc6716_framing.h"
void harness(void){
  int len=vt_range(0,MAXLEN);
  VT_TAILBUF(data,len,MAXLEN);                  /* data ends at the end of its object: any over-read is a bounds failure */
  if(len>0) __CPROVER_assume((data[0]&3)==CODE);
#ifdef COUNTMAX
  if(len>1) __CPROVER_assume((data[1]&0x3F)<=COUNTMAX);
#endif
#ifdef VBRBIT
  if(len>1) __CPROVER_assume(((data[1]>>7)&1)==VBRBIT);
#endif
  static const int FS[5]={8000,12000,16000,24000,48000};
  opus_int32 Fs=FS[vt_range(0,4)];
  int sd=vt_range(0,1);
  unsigned char toc=0; const unsigned char *fr[48]; opus_int16 sz[48]; int po=-1; opus_int32 pko=-1; const unsigned char *pad=0; opus_int32 padlen=-1;
  int ret=opus_packet_parse_impl(data,len,sd,&toc,fr,sz,&po,&pko,&pad,&padlen);
  VASSERT(ret==OPUS_INVALID_PACKET || (ret>=1&&ret<=48),"parse: documented result");
  if(ret>0){
    VASSERT(po>=1&&po<=len&&pko>=po&&pko<=len,"parse: offsets inside the packet");
    for(int i=0;i<48;i++) if(i<ret){ VASSERT(sz[i]>=0&&sz[i]<=1275,"parse: frame size"); VASSERT(fr[i]>=data && fr[i]+sz[i]<=data+len,"parse: frame inside the packet"); }
    VASSERT(pad>=data && padlen>=0 && pad+padlen<=data+len,"parse: padding inside the packet");
  }
  /* public wrapper with optional outputs absent */
  const unsigned char *fr2[48]; opus_int16 sz2[48];
  int ret2=opus_packet_parse(data,len,0,fr2,sz2,0);
  { opus_int16 sz3[48]; int ret3=opus_packet_parse(data,len,0,0,sz3,0); VASSERT(ret3==ret2,"optional outputs may be absent"); }
  if(sd==0) VASSERT(ret2==ret,"opus_packet_parse == impl with standard framing");
  /* length-checked helpers */
  int nf=opus_packet_get_nb_frames(data,len);
  VASSERT(nf==OPUS_BAD_ARG||nf==OPUS_INVALID_PACKET||(nf>=0&&nf<=63),"nb_frames: documented result");
  if(len<1) VASSERT(nf==OPUS_BAD_ARG,"nb_frames: empty packet is a bad argument");
  if(ret2>0) VASSERT(nf==ret2,"nb_frames agrees with the parser on valid packets");
  int ns=opus_packet_get_nb_samples(data,len,Fs);
  VASSERT(ns==OPUS_BAD_ARG||ns==OPUS_INVALID_PACKET||(ns>=0&&ns<=Fs/25*3),"nb_samples: documented result, at most 120 ms");
  if(len>=1){
    int spf=opus_packet_get_samples_per_frame(data,Fs);
    VASSERT(spf*48000LL==(long long)rfc_frame_48k(data[0])*Fs,"samples_per_frame == RFC table 2 duration at Fs");
    if(ns>=0) VASSERT(ns==nf*spf,"nb_samples == nb_frames x samples_per_frame");
    if(ret2>0) VASSERT(ns==ret2*spf,"valid packet: nb_samples is the announced duration");
    int bw=opus_packet_get_bandwidth(data);
    VASSERT(bw==rfc_bandwidth(data[0]),"bandwidth == RFC table 2");
    VASSERT(opus_packet_get_nb_channels(data)==((data[0]&4)?2:1),"channels == TOC s bit");
  }
  int lb=opus_packet_has_lbrr(data,len);
  VASSERT(lb==0||lb==1||lb==OPUS_INVALID_PACKET||lb==OPUS_BAD_ARG,"has_lbrr: documented result");
  if(len>=1 && ret2>0){
    /* RFC 6716 4.2.3/4.2.4: after the VAD flags (one per SILK frame) comes the LBRR flag, per channel */
    int silk = (data[0]&0x80)==0;
    if(!silk) VASSERT(lb==0,"has_lbrr: CELT-only packets carry no LBRR");
    else if(sz2[0]>0){ int nsf = rfc_frame_48k(data[0])>960 ? rfc_frame_48k(data[0])/960 : 1; int b=fr2[0][0];
      int want=(b>>(7-nsf))&1; if(data[0]&4) want = want || ((b>>(6-2*nsf))&1);
      VASSERT(lb==want,"has_lbrr: LBRR flag position per RFC 6716 4.2.3"); }
    else VASSERT(lb==0,"has_lbrr: empty first frame has no LBRR");
  }
  VWITNESS(ret>0 && lb==1);
}
