/* C07-H4: opus_multistream_packet_unpad / _pad on any 2-stream packet of LEN bytes (case selector): stream 0 self-delimited,
   stream 1 standard framing; oracle = the RFC 6716 framing model (spec/rfc6716_framing.h, Appendix B for the self-delimited stream).
   -DLEN -DCMAX (frame-count bound per stream) -DXP (pad amount bound) [-DUNPAD_ONLY] */
#include "common.h"
#include "opus.h"
#include "opus_private.h"
#include "rfc6716_framing.h"
#include "C07_ext_stub.h"
/* minimal framing of n frames; sd: self-delimited (one more length field, for the last frame / the common CBR size) */
static int canon_size(const int *len,int n,int sd){
  int tot=0, vbr=0; for(int i=0;i<CMAX+1;i++) if(i<n){ tot+=len[i]; if(len[i]!=len[0]) vbr=1; }
  int extra = sd ? 1+(len[n-1]>=252) : 0;
  if(n==1) return 1+tot+extra;
  if(n==2) return (vbr ? 1+1+(len[0]>=252)+tot : 1+tot)+extra;
  if(!vbr) return 2+tot+extra;
  { int h=2; for(int i=0;i<CMAX+1;i++) if(i<n-1) h+=1+(len[i]>=252); return h+tot+extra; }
}
/* stream at a[0..alen) must parse (framing sd) into the frames of model m taken from orig; returns bytes consumed */
static int same_frames(const unsigned char *a,int alen,int sd,const unsigned char *orig,const rfc_pkt *m){
  unsigned char toc; const unsigned char *fr[48]; opus_int16 sz[48]; opus_int32 pko=-1;
  int c=opus_packet_parse_impl(a,alen,sd,&toc,fr,sz,0,&pko,0,0);
  VASSERT(c==m->count,"same number of frames in the stream");
  VASSERT((toc&0xFC)==(orig[0]&0xFC),"same configuration bits");
  for(int i=0;i<CMAX+1;i++) if(i<c && c==m->count){ VASSERT(sz[i]==m->size[i],"same frame sizes, in order");
    for(int j=0;j<LEN;j++) if(j<sz[i]) VASSERT(fr[i][j]==orig[m->frame_off[i]+j],"same frame bytes"); }
  return pko;
}
void harness(void){
  unsigned char buf[LEN+XP+1], orig[LEN+1];
  for(int i=0;i<LEN;i++){ buf[i]=vt_uchar(); orig[i]=buf[i]; }
  unsigned char guard=vt_uchar(); for(int i=LEN;i<=LEN+XP;i++) buf[i]=guard;
  __CPROVER_assume((orig[0]&3)!=3 || LEN<2 || (orig[1]&0x3F)<=CMAX);    /* stated bound on the frame count of stream 0, before its count byte is used */
  rfc_pkt m0=rfc_parse(orig,LEN,1);
  int off0 = m0.valid ? m0.consumed : 0;
  rfc_pkt m1; m1.valid=0; m1.count=0;
  /* stated bound on the frame count of stream 1, placed before its count byte is used */
  if(m0.valid && off0+1<LEN && (orig[off0]&3)==3) __CPROVER_assume((orig[off0+1]&0x3F)<=CMAX);
  if(m0.valid && off0<LEN) m1=rfc_parse(orig+off0,LEN-off0,0);
  int valid = m0.valid && off0<LEN && m1.valid;
  /* stated bound on the frame counts */
  __CPROVER_assume(!m0.valid || m0.count<=CMAX);
  __CPROVER_assume(!valid || m1.count<=CMAX);
#ifndef UNPAD_ONLY
  int new_len=LEN+vt_range(0,XP);
  /* the last stream must be padding-free for the extension stub to be valid in opus_packet_pad */
  __CPROVER_assume(!valid || !((orig[off0]&3)==3 && LEN-off0>1 && (orig[off0+1]&0x40)));
  int r=opus_multistream_packet_pad(buf,LEN,new_len,2);
  VASSERT(r==OPUS_OK||r==OPUS_INVALID_PACKET,"documented result");
  if(new_len>LEN && m0.valid && off0<LEN) VASSERT((r==OPUS_OK)==(m1.valid!=0),"padding succeeds exactly when the last stream is valid");
  { int k=vt_range(0,LEN+XP); if(k>=new_len) VASSERT(buf[k]==guard,"never writes beyond new_len"); }
  if(r!=OPUS_OK || !valid) return;
  { int k=vt_range(0,LEN); if(k<off0) VASSERT(buf[k]==orig[k],"leading streams untouched by padding"); }
  int c1=same_frames(buf+off0,new_len-off0,0,orig+off0,&m1);
  VASSERT(c1==new_len-off0,"padded last stream fills exactly new_len");
  int u=opus_multistream_packet_unpad(buf,new_len,2);
#else
  int new_len=LEN;
  int u=opus_multistream_packet_unpad(buf,LEN,2);
  VASSERT(u>0||u==OPUS_INVALID_PACKET,"documented result");
  VASSERT((u>0)==(valid!=0),"multistream unpad succeeds exactly when every stream is valid");
  if(u<=0) return;
#endif
  VASSERT(u>0 && u<=new_len,"unpadded packet is never longer than its input");
  int e0=canon_size(m0.size,m0.count,1), e1=canon_size(m1.size,m1.count,0);
  VASSERT(u==e0+e1,"unpadding is canonical per stream: minimal self-delimited framing + minimal standard framing");
  int c0=same_frames(buf,u,1,orig,&m0);
  VASSERT(c0==e0,"stream 0 occupies its canonical size");
  int c2=same_frames(buf+c0,u-c0,0,orig+off0,&m1);
  VASSERT(c2==u-c0,"stream 1 ends exactly at the reported length");
  { int k=vt_range(0,LEN+XP); if(k>=new_len) VASSERT(buf[k]==guard,"never writes beyond the input length"); }
  VWITNESS(m0.count>=1 && m1.count>=1 && e0<off0);
}
