/* C20-H2: SILK VAD/DTX machine (silk_encode_do_VAD_FLP), silk_VAD_GetSA_Q8 stubbed to any activity level.
   Per packet silk_Encode sets inDTX=useDTX, then runs this once per 20 ms frame; the packet is DTX iff inDTX survives. */
#include "common.h"
#include "main_FLP.h"
static silk_encoder_state_FLP E;
opus_int silk_VAD_GetSA_Q8_c(silk_encoder_state *psEncC, const opus_int16 pIn[]){ psEncC->speech_activity_Q8=vt_range(0,255); return 0; }
void harness(void){
  int cnt=vt_range(0,NB_SPEECH_FRAMES_BEFORE_DTX+MAX_CONSECUTIVE_DTX);
  E.sCmn.noSpeechCounter=cnt; E.sCmn.useDTX=vt_range(0,1);
  int nframes=vt_range(1,3);
  E.sCmn.inDTX=E.sCmn.useDTX;                       /* enc_API.c, start of packet */
  int allinactive=1, c=cnt, expect=E.sCmn.useDTX;
  for(int f=0;f<3;f++) if(f<nframes){
    E.sCmn.nFramesEncoded=f;
    int opus_act=vt_range(-1,1);                     /* VAD_NO_DECISION / NO_ACTIVITY / ACTIVITY */
    silk_encode_do_VAD_FLP(&E,opus_act);
    int sa=E.sCmn.speech_activity_Q8;
    int inactive = sa < 13;                          /* SPEECH_ACTIVITY_DTX_THRES 0.05 in Q8 = 13 */
    VASSERT(E.sCmn.VAD_flags[f]==!inactive,"VAD flag of the frame");
    if(opus_act==VAD_NO_ACTIVITY) VASSERT(inactive,"Opus-level inactivity forces SILK inactivity");
    if(!inactive){ VASSERT(E.sCmn.noSpeechCounter==0 && E.sCmn.inDTX==0,"first active frame clears DTX and the counter"); c=0; expect=0; allinactive=0; }
    else { int frame_dtx = c+1>NB_SPEECH_FRAMES_BEFORE_DTX && c+1<=NB_SPEECH_FRAMES_BEFORE_DTX+MAX_CONSECUTIVE_DTX;
           c = (c+1>NB_SPEECH_FRAMES_BEFORE_DTX+MAX_CONSECUTIVE_DTX) ? NB_SPEECH_FRAMES_BEFORE_DTX : c+1;
           if(!frame_dtx) expect=0; }
    VASSERT(E.sCmn.noSpeechCounter==c,"counter follows the 10-frame / 20-frame rule");
    VASSERT(c>=0&&c<=NB_SPEECH_FRAMES_BEFORE_DTX+MAX_CONSECUTIVE_DTX,"counter invariant (inductive)");
  }
  VASSERT(E.sCmn.inDTX==expect,"packet is DTX iff DTX enabled and every frame is inactive with the counter in (10,30]");
  if(E.sCmn.inDTX) VASSERT(allinactive && E.sCmn.noSpeechCounter>=NB_SPEECH_FRAMES_BEFORE_DTX,"OPUS_GET_IN_DTX expression true on a DTX packet");
  VWITNESS(E.sCmn.inDTX==1 && nframes==3);
}
