/* C11-H1: one opus_encoder_ctl request per run (-DREQ_SET -DREQ_GET -DLEGAL(v,st)= [-DFIELD(st)=] [-DNOGET]) on a havocked
   OpusEncoder: accepted => legal and read back; rejected => OPUS_BAD_ARG, illegal, every byte of the object unchanged. */
#include "common.h"
#include "opus_encoder.c"
static int g_celt_calls, g_celt_val, g_celt_req;
int celt_encoder_ctl(CELTEncoder *st, int request, ...){ va_list ap; va_start(ap,request); g_celt_calls++; g_celt_req=request;
  if(request==OPUS_GET_PHASE_INVERSION_DISABLED_REQUEST){ opus_int32 *p=va_arg(ap,opus_int32*); *p=g_celt_val; }
  else if(request==OPUS_SET_PHASE_INVERSION_DISABLED_REQUEST||request==OPUS_SET_COMPLEXITY_REQUEST||request==OPUS_SET_PACKET_LOSS_PERC_REQUEST||request==OPUS_SET_LFE_REQUEST){ g_celt_val=va_arg(ap,opus_int32); }
  va_end(ap); return OPUS_OK; }
typedef struct { OpusEncoder e; char tail[64]; } obj_t;
void harness(void){
  obj_t S, B; OpusEncoder *st=&S.e;      /* arbitrary bytes: any state, reachable or not */
  st->silk_enc_offset=sizeof(OpusEncoder); st->celt_enc_offset=sizeof(OpusEncoder)+32;
  __CPROVER_assume(st->channels==1||st->channels==2);
  B=S;
  int v=nondet_int(); int out=123456789;
#ifdef UNKNOWN_REQUEST
  { int rq=nondet_int(); __CPROVER_assume(rq<4000 || rq>11050);      /* outside every request number range the library defines */
    int r=opus_encoder_ctl(st,rq,v);
    VASSERT(r==OPUS_UNIMPLEMENTED,"unknown request is OPUS_UNIMPLEMENTED");
    unsigned k=nondet_uint(); __CPROVER_assume(k<sizeof S); VASSERT(((unsigned char*)&B)[k]==((unsigned char*)&S)[k],"unknown request changes nothing"); 
    VWITNESS(rq==12345); return; }
#else
  int r=opus_encoder_ctl(st,REQ_SET,v);
  if(r==OPUS_OK){
    VASSERT(LEGAL(v,(&B.e)),"accepted value is legal per opus_defines.h");
#ifdef FIELD
    VASSERT(FIELD(st)==EXPECT(v,(&B.e)),"setting stored as documented");
#endif
#ifndef NOGET
    int r2=opus_encoder_ctl(st,REQ_GET,&out);
    VASSERT(r2==OPUS_OK && out==EXPECT(v,(&B.e)),"getter reports the value that was set");
#endif
  } else {
    VASSERT(r==OPUS_BAD_ARG,"rejection uses the documented error");
    VASSERT(!LEGAL(v,(&B.e)),"a legal value is never rejected");
    VASSERT(g_celt_calls==0,"nothing forwarded to the CELT layer on rejection");
    unsigned k=nondet_uint(); __CPROVER_assume(k<sizeof S); VASSERT(((unsigned char*)&B)[k]==((unsigned char*)&S)[k],"rejection leaves every byte of the state unchanged");
  }
#ifndef NOGET
  { int r3=opus_encoder_ctl(st,REQ_GET,(opus_int32*)0);
    VASSERT(r3==OPUS_BAD_ARG,"null getter pointer is OPUS_BAD_ARG"); }
#endif
  VWITNESS(r==OPUS_OK);
#endif
}
