/* C12 decoder: initialisation is independent of previous memory contents and confined to opus_decoder_get_size() bytes (MODE 0);
   OPUS_RESET_STATE on an object with an arbitrary signal history equals a freshly initialised object carrying the same settings (MODE 1).
   All three private structs are needed for the reset markers, so the three units are compiled as one translation unit.
   Whole-state equality is one solver query: a symbolic byte index k, assert A[k]==B[k].   -DCH=1|2 */
#include "common.h"
#include "opus_decoder.c"
#include "celt_decoder.c"
#include "dec_API.c"
/* bytes of the CELT decoder state behind the struct proper: (channels*(DECODE_BUFFER_SIZE+overlap)-1) sig + channels*LPC_ORDER val16 + 4*2*nbEBands glog */
#define CELT_TAIL (((CH)*(DECODE_BUFFER_SIZE+120)-1)*4 + (CH)*CELT_LPC_ORDER*4 + 8*21*4)
static const opus_int32 RATES[5]={8000,12000,16000,24000,48000};
#define OFF(T,f) ((int)offsetof(T,f))
/* history-dependent fields that precede a reset marker, are not restored by reset and are dead afterwards (written before they are read
   by the next decode): compared neither here nor by the library; listed in evidence as outside the claim */
static int stale(int k,int silk_off){
  int d=OFF(OpusDecoder,DecControl);
  if(k>=d+OFF(silk_DecControlStruct,nChannelsInternal) && k<d+OFF(silk_DecControlStruct,nChannelsInternal)+4) return 1;
  if(k>=d+OFF(silk_DecControlStruct,internalSampleRate) && k<d+(int)sizeof(silk_DecControlStruct)) return 1; /* internalSampleRate, payloadSize_ms, prevPitchLag, enable_deep_plc */
  int s=silk_off;
  if(k>=s+OFF(silk_decoder,nChannelsAPI) && k<s+OFF(silk_decoder,nChannelsInternal)+4) return 1;
  return 0;
}
#define ALIGNPAD(T) ((sizeof(T)+7)/8*8-sizeof(T))
typedef struct { OpusDecoder d; char p1[ALIGNPAD(OpusDecoder)]; silk_decoder s; char p2[ALIGNPAD(silk_decoder)];
                 CELTDecoder c; char tail[CELT_TAIL]; unsigned char guard[12]; } dec_obj;
void harness(void){
  const int ch=CH; opus_int32 Fs=RATES[vt_range(0,4)];
  int size=opus_decoder_get_size(ch);
  VASSERT(size>0 && size==(int)(align(sizeof(OpusDecoder))+align(sizeof(silk_decoder))+celt_decoder_get_size(ch)),"size query == sum of the three aligned sub-states");
  /* two objects of exactly opus_decoder_get_size() bytes with arbitrary contents.  They are typed (the three sub-states at the offsets
     init computes, the CELT tail as raw bytes): cbmc bit-blasts typed fields cheaply, an 18-27 KB untyped byte array never finishes */
  dec_obj OA, OB;
  VASSERT(size==OFF(dec_obj,guard) && OFF(dec_obj,s)==(int)align(sizeof(OpusDecoder)) && OFF(dec_obj,c)==OFF(dec_obj,s)+(int)align(sizeof(silk_decoder)),"harness object layout == library layout");
  unsigned char *A=(unsigned char*)&OA, *B=(unsigned char*)&OB;
  OpusDecoder *a=&OA.d, *b=&OB.d;
  int r=opus_decoder_init(a,Fs,ch);
  VASSERT(r==OPUS_OK,"init accepts a legal (Fs,channels)");
  int k=vt_range(0,size-1);
  unsigned char g0=vt_uchar(); int gi=vt_range(0,11); OB.guard[gi]=g0;
#if MODE==0
  r=opus_decoder_init(b,Fs,ch);
  VASSERT(r==OPUS_OK,"init accepts a legal (Fs,channels)");
  VASSERT(A[k]==B[k],"init: every byte of the state is independent of the previous memory contents and of the object's address");
  VASSERT(OB.guard[gi]==g0,"init writes nothing behind opus_decoder_get_size() bytes");
  /* known values (also validates the memset model in use) */
  VASSERT(a->Fs==Fs && a->channels==ch && a->stream_channels==ch && a->frame_size==Fs/400 && a->prev_mode==0 && a->decode_gain==0 && a->rangeFinal==0,"init: documented initial values");
  VASSERT(OA.s.channel_state[1].prev_gain_Q16==65536 && OA.s.channel_state[0].first_frame_after_reset==1 && OA.c.signalling==0 && OA.c.skip_plc==1 && OA.c.downsample==48000/Fs,"init: sub-state initial values");
  { int j=vt_range(0,MAX_FRAME_LENGTH-1); VASSERT(OA.s.channel_state[0].exc_Q14[j]==0 && OA.s.channel_state[1].sCNG.CNG_exc_buf_Q14[j]==0,"init: signal buffers cleared"); }
  VWITNESS(k==size-1 && Fs==48000);
#else
  int g=vt_range(-32768,32767), cx=vt_range(0,10), pi=vt_range(0,1);
  VASSERT(opus_decoder_ctl(a,OPUS_SET_GAIN(g))==OPUS_OK && opus_decoder_ctl(a,OPUS_SET_COMPLEXITY(cx))==OPUS_OK && opus_decoder_ctl(a,OPUS_SET_PHASE_INVERSION_DISABLED(pi))==OPUS_OK,"settings accepted");
  /* B: arbitrary bytes everywhere (any signal history), except the configuration = everything in front of the reset markers */
  int so=a->silk_dec_offset, co=a->celt_dec_offset;
  /* (typed struct copies followed by a havoc of every field behind the marker: byte-wise memcpy of a struct prefix that holds a pointer is
     very expensive for cbmc) */
  OB.d=OA.d;
  b->stream_channels=vt_int(); b->bandwidth=vt_int(); b->mode=vt_int(); b->prev_mode=vt_int(); b->frame_size=vt_int(); b->prev_redundancy=vt_int();
  b->last_packet_duration=vt_int(); b->softclip_mem[0]=vt_float(); b->softclip_mem[1]=vt_float(); b->rangeFinal=vt_uint();
  OB.c=OA.c;
  OB.c.rng=vt_uint(); OB.c.error=vt_int(); OB.c.last_pitch_index=vt_int(); OB.c.loss_duration=vt_int(); OB.c.skip_plc=vt_int(); OB.c.postfilter_period=vt_int();
  OB.c.postfilter_period_old=vt_int(); OB.c.postfilter_gain=vt_float(); OB.c.postfilter_gain_old=vt_float(); OB.c.postfilter_tapset=vt_int(); OB.c.postfilter_tapset_old=vt_int();
  OB.c.prefilter_and_fold=vt_int(); OB.c.preemph_memD[0]=vt_float(); OB.c.preemph_memD[1]=vt_float(); OB.c._decode_mem[0]=vt_float();
  VASSERT(OFF(OpusDecoder,rangeFinal)+4==(int)sizeof(OpusDecoder) && OFF(CELTDecoder,_decode_mem)+4<=(int)sizeof(CELTDecoder) && OFF(CELTDecoder,_decode_mem)+8>(int)sizeof(CELTDecoder),
          "harness havocs every field behind the two reset markers (a field added behind them must be added here)");
  /* the stale fields keep arbitrary values */
  b->DecControl.nChannelsInternal=vt_int(); b->DecControl.internalSampleRate=vt_int(); b->DecControl.payloadSize_ms=vt_int(); b->DecControl.prevPitchLag=vt_int(); b->DecControl.enable_deep_plc=vt_int();
  r=opus_decoder_ctl(b,OPUS_RESET_STATE);
  VASSERT(r==OPUS_OK,"reset succeeds");
  if(!stale(k,so)) VASSERT(A[k]==B[k],"OPUS_RESET_STATE from any signal history == freshly initialised object with the same settings, byte for byte");
  { opus_int32 v=-1; opus_decoder_ctl(b,OPUS_GET_GAIN(&v)); VASSERT(v==g,"reset keeps the gain setting"); }
  VASSERT(OB.guard[gi]==g0,"reset writes nothing behind opus_decoder_get_size() bytes");
  VWITNESS(k==size-1 && g==-5 && cx==7);
#endif
}
