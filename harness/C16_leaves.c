/* C16-H1a: leaf lemmas of the extension parser on any buffer <= EL bytes in an exact-size object:
   reads inside, pointer advance == consumed bytes, header inside the consumed part, progress. These are the
   contracts the iterator-step harness (H1b) assumes. */
#include "common.h"
#include "extensions.c"
void harness(void){
  int n=vt_range(0,EL);
#ifdef EXACT
  unsigned char *buf=vt_alloc(n); VT_FILL(buf,n,EL);
#else
  VT_TAILBUF(buf,n,EL);
#endif
  int off=vt_range(0,EL); __CPROVER_assume(off<=n);
  const unsigned char *p=buf+off; opus_int32 len=n-off, hs=-1;
  int id_byte=vt_range(0,255);
  opus_int32 tsl=vt_int(); __CPROVER_assume(tsl>=0);
  opus_int32 r=skip_extension_payload(&p,len,&hs,id_byte,tsl);
  VASSERT(r>=-1 && r<=len,"payload: remaining length in [-1,len]");
  if(r>=0){ VASSERT(p==buf+off+(len-r),"payload: pointer advanced by exactly the consumed bytes"); VASSERT(hs>=0&&hs<=len-r,"payload: header inside the consumed bytes");
    if((id_byte>>1)<32 && ((id_byte>>1)>=1 || (id_byte&1))){ int L=id_byte&1, id=id_byte>>1; VASSERT(len-r==((id==0||id==2)?0:L) && hs==0,"short extension payload is exactly L bytes, no header"); } }
  else VASSERT(p==buf+off,"payload: pointer untouched on failure");
  const unsigned char *q=buf+off; opus_int32 hs2=-1;
  opus_int32 r2=skip_extension(&q,len,&hs2);
  VASSERT(r2>=-1&&r2<=len,"extension: remaining length in [-1,len]");
  if(r2>=0){ VASSERT(q==buf+off+(len-r2),"extension: pointer advanced by exactly the consumed bytes"); VASSERT(hs2>=0&&hs2<=len-r2,"extension: header inside the consumed bytes");
    if(len>0){ VASSERT(r2<len && hs2>=1,"extension: progress (at least the ID byte is consumed)");
      int b=buf[off], id=b>>1, L=b&1; if(id<32 && (id>=1||L)) VASSERT(len-r2==1+((id==0||id==2)?0:L) && hs2==1,"short extension consumes 1+L bytes"); } }
  else VASSERT(q==buf+off,"extension: pointer untouched on failure");
  VWITNESS(r2>=0 && hs2>=2);
}
