/* C13-H1b: the three analysis down-mixers on the same audio in its three formats (v, 256 v, v/32768; any int16 v): bit-identical output and
   equal to the direct specification (selected channel, plus a second channel, or plus all other channels), for every channel selection the
   single-stream and multistream encoders can pass.  -DNCH=channels (1..3) -DC2SEL=second channel (-2 all others, -1 none, 0..C-1) */
#include "common.h"
#include "opus_encoder.c"
#define C NCH
#define NS 1
#define OFFMAX 1
static unsigned bits(float f){ unsigned u; memcpy(&u,&f,4); return u; }
void harness(void){
  opus_int16 a[(NS+OFFMAX)*C]; opus_int32 b[(NS+OFFMAX)*C]; float f[(NS+OFFMAX)*C];
  for(int i=0;i<(NS+OFFMAX)*C;i++){ a[i]=vt_short(); b[i]=256*(opus_int32)a[i]; f[i]=(float)a[i]*(1.f/32768.f); }
  int off=vt_range(0,OFFMAX), c1=vt_range(0,C-1), c2=C2SEL;   /* case selector */
  opus_val32 y0[NS], y1[NS], y2[NS];
  downmix_int(a,y0,NS,off,c1,c2,C);
  downmix_int24(b,y1,NS,off,c1,c2,C);
  downmix_float(f,y2,NS,off,c1,c2,C);
  int j=vt_range(0,NS-1);
  VASSERT(bits(y0[j])==bits(y1[j]) && bits(y0[j])==bits(y2[j]),"the three down-mixers are bit-identical on the same audio");
  /* direct specification in exact integer arithmetic (|sum| < 2^24: exactly representable) */
  int want=a[(j+off)*C+c1];
  if(c2>-1) want+=a[(j+off)*C+c2];
  else if(c2==-2) for(int c=1;c<C;c++) want+=a[(j+off)*C+c];
  VASSERT(y0[j]==(float)want,"down-mix == first channel + selected second channel / all other channels");
  VWITNESS(off==1);
}
