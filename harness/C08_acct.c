/* C08-H5: accounting invariant of the range encoder, preserved by every operation from ANY state that
   satisfies it (inductive => sequences of any length), and the termination lemma for ec_enc_done.
   -DOP=1 bit_logp 2 enc_bits 4 encode_bin 5 icdf 9 done */
#include "common.h"
#include "entenc.h"
#include "entcode.h"
#include "mfrngcod.h"
#ifndef EXTMAX
#define EXTMAX 16
#endif
static int inv(const ec_enc *e, int pre){
  if(e->error) return 1;
  if(!(e->rng>EC_CODE_BOT && e->rng<=EC_CODE_TOP)) return 0;
  if(e->storage>8 || e->offs>e->storage || e->end_offs>e->storage || e->offs+e->end_offs>e->storage) return 0;
  if(e->rem<-1||e->rem>255) return 0;
  if(pre && e->ext>EXTMAX) return 0;                 /* stated bound on the deferred 0xFF run (pre-state only) */
  if(e->nend_bits<0||e->nend_bits>32) return 0;
  if(e->rem<0 && e->offs!=0) return 0;
  if(e->nend_bits<32 && (e->end_window>>e->nend_bits)!=0) return 0;
  long long acc = 33LL + 8LL*((long long)e->offs+e->ext+(e->rem>=0)) + 8LL*e->end_offs + e->nend_bits;
  return e->nbits_total==acc;
}
void harness(void){
  unsigned char buf[8]; ec_enc e; memset(&e,0,sizeof e); e.buf=buf;
  for(int i=0;i<8;i++) buf[i]=vt_uchar();
  e.storage=vt_uint(); e.end_offs=vt_uint(); e.end_window=vt_uint(); e.nend_bits=vt_int(); e.nbits_total=vt_int(); e.offs=vt_uint();
  e.rng=vt_uint(); e.val=vt_uint(); e.ext=vt_uint(); e.rem=vt_int(); e.error=0;
  __CPROVER_assume(e.storage>=1 && inv(&e,1));
  __CPROVER_assume(e.val<EC_CODE_TOP);
  opus_uint32 f0=ec_tell_frac(&e);
#if OP==1
  { unsigned v=vt_uint()&1, lp=vt_uint(); __CPROVER_assume(lp>=1&&lp<=15); ec_enc_bit_logp(&e,v,lp); }
#elif OP==2
  { unsigned b=vt_uint(), v=vt_uint(); __CPROVER_assume(b>=1&&b<=25&&v<(1u<<b)); ec_enc_bits(&e,v,b); }
#elif OP==4
  { unsigned fl=vt_uint(), fh=vt_uint(), bits=vt_uint(); __CPROVER_assume(bits>=1&&bits<=15&&fl<fh&&fh<=(1u<<bits)); ec_encode_bin(&e,fl,fh,bits); }
#elif OP==5
  { unsigned char t[4]; unsigned ftb=vt_uint(); int s=vt_range(0,3); t[0]=vt_uchar(); t[1]=vt_uchar(); t[2]=vt_uchar(); t[3]=0;
    __CPROVER_assume(ftb>=1&&ftb<=8&&t[0]<(1u<<ftb)&&t[0]>t[1]&&t[1]>t[2]&&t[2]>0); ec_enc_icdf(&e,s,t,ftb); }
#elif OP==9
  { int fits = ec_tell(&e) <= 8*(int)e.storage; ec_enc_done(&e);
    if(fits) VASSERT(!e.error,"ec_enc_done cannot fail when ec_tell <= 8*storage");
    VWITNESS(fits && e.offs>=2); return; }
#endif
#if OP!=9
  VASSERT(inv(&e,0),"accounting invariant preserved");
  if(!e.error) VASSERT(ec_tell_frac(&e)>=f0,"fractional bit count never decreases");
  VWITNESS(!e.error && e.offs>=1);
#endif
}
