/* C18-H1: silk_NLSF_stabilize on ANY int16 vector with the real deltaMin table of one codebook (-DWB=0|1):
   output ordered, spacing >= deltaMin, inside (0,32768). */
#include "common.h"
#include "main.h"
#include "tables.h"
void harness(void){
  const silk_NLSF_CB_struct *cb = WB ? &silk_NLSF_CB_WB : &silk_NLSF_CB_NB_MB;
  int L = cb->order;
  opus_int16 x[16];
  for(int i=0;i<16;i++) x[i]=vt_short();
  silk_NLSF_stabilize(x, cb->deltaMin_Q15, L);
  VASSERT(x[0]>=cb->deltaMin_Q15[0],"first coefficient >= deltaMin[0]");
  for(int i=1;i<16;i++) if(i<L) VASSERT(x[i]-x[i-1]>=cb->deltaMin_Q15[i],"spacing >= deltaMin");
  VASSERT(x[L-1] <= 32768 - cb->deltaMin_Q15[L],"last coefficient <= 32768-deltaMin[L]");
  VWITNESS(x[0]==cb->deltaMin_Q15[0] && x[1]>500);
}
