/* C16-H3 / C07: carriage of extensions through opus_repacketizer_out_range_impl.  The state holds F single-frame slots; each slot may own a
   padding area that carries 0..2 extensions.  The three extension entry points are contract stubs over an abstract extension list
   (their real bodies: C16 leaves; the iterator is not decided): count/parse report the slot's list (frame index 0, as parsed from a one-frame
   packet), generate(NULL) reports an arbitrary coded size E, the real call must be handed exactly E bytes inside the output buffer.
   Asserted: the list handed to the generator holds every selected slot's extensions, in order, renumbered to the output frame that holds the
   slot's audio frame (slot - begin); nb_frames == number of output frames; result <= maxlen and no store at or behind data[maxlen];
   refusal exactly when frames + padding header + E do not fit; the output re-parses to the selected frames with the E bytes as the tail of
   its padding.   -DF (slots) -DOL (output bound) -DN0..-DN3 (extensions per slot) -DBEGIN -DEND */
#include "common.h"
#include "opus.h"
#include "opus_private.h"
#define NX 2
static const int NPAT[4]={N0,N1,N2,N3};      /* extensions per slot (case selector) */
static unsigned char padmark[F][4];                 /* distinct padding objects identify the slot in the stubs */
static int g_n[F]; static int g_id[F][NX], g_len[F][NX];
static int g_E, g_dry, g_real, g_cnt, g_frames_arg; static opus_extension_data g_list[F*NX]; static unsigned char *g_dst; static int g_dstlen;
static int slot_of(const unsigned char *p){ for(int i=0;i<F;i++) if(p==padmark[i]) return i; return -1; }
opus_int32 opus_packet_extensions_count(const unsigned char *data, opus_int32 len, int nb_frames){
  if(len==0) return 0;
  int s=slot_of(data); VASSERT(s>=0 && nb_frames==1,"count is asked about a slot's own padding and frame count"); return g_n[s]; }
opus_int32 opus_packet_extensions_parse(const unsigned char *data, opus_int32 len, opus_extension_data *e, opus_int32 *nb, int nb_frames){
  if(len==0){ *nb=0; return 0; }
  int s=slot_of(data); VASSERT(s>=0 && nb_frames==1,"parse is asked about a slot's own padding and frame count");
  VASSERT(*nb>=g_n[s],"room for the slot's extensions in the merged array");
  for(int j=0;j<NX;j++) if(j<g_n[s]){ e[j].id=g_id[s][j]; e[j].frame=0; e[j].len=g_len[s][j]; e[j].data=data; }
  *nb=g_n[s]; return 0; }
opus_int32 opus_packet_extensions_generate(unsigned char *data, opus_int32 len, const opus_extension_data *e, opus_int32 nb, int nb_frames, int pad){
  VASSERT(nb>=1 && nb<=F*NX,"generator gets a non-empty merged list");
  g_cnt=nb; g_frames_arg=nb_frames; for(int j=0;j<F*NX;j++) if(j<nb) g_list[j]=e[j];
  if(data==0){ g_dry++; if(g_E>len) return OPUS_BUFFER_TOO_SMALL; return g_E; }
  g_real++; g_dst=data; g_dstlen=len;
  VASSERT(len==g_E,"the real generate call is handed exactly the size the dry run reported");
  data[0]=0xEE; data[len-1]=0xEE;                     /* bounds-checked: the extension area lies inside the output object */
  return len; }
void harness(void){
  unsigned char src[F+1]; for(int i=0;i<F+1;i++) src[i]=vt_uchar();
  int maxlen=vt_range(0,OL);
  VT_TAILBUF(out,maxlen,OL);                          /* out[0..maxlen) ends at the end of its object */
  static OpusRepacketizer rp;
  rp.toc=vt_uchar(); rp.nb_frames=vt_range(1,F);
  rp.framesize=opus_packet_get_samples_per_frame(&rp.toc,8000);
  __CPROVER_assume(rp.nb_frames*rp.framesize<=960);
  int off=0, total=0;
  for(int i=0;i<F;i++){ int l=vt_range(0,1); rp.len[i]=l; rp.frames[i]=src+off; off+=l;
    g_n[i]=NPAT[i]; for(int j=0;j<NX;j++){ g_id[i][j]=vt_range(3,127); g_len[i][j]=vt_range(0,1); }
    rp.paddings[i]=0; if(g_n[i]) rp.paddings[i]=&padmark[i][0]; rp.padding_len[i]= g_n[i]? 4 : 0; rp.padding_nb_frames[i]=1; }
  g_E=vt_range(1,OL);
  /* range and extension counts are case selectors: the merged array is a VLA, and a symbolic-size VLA of structs exhausts memory */
  int begin=BEGIN, end=END, sd=vt_range(0,1);
  __CPROVER_assume(end<=rp.nb_frames);
  for(int i=0;i<F;i++) if(i>=begin&&i<end) total+=g_n[i];
  int r=opus_repacketizer_out_range_impl(&rp,begin,end,out,maxlen,sd,0,0,0);
  int n=end-begin;
  VASSERT(r==OPUS_BUFFER_TOO_SMALL || (r>0&&r<=maxlen),"result is BUFFER_TOO_SMALL or a length <= maxlen");
  if(total==0){ VASSERT(g_dry==0&&g_real==0,"no extensions selected: generator not involved"); }
  else {
    /* size the format needs: code-3 framing of the selected frames + padding length bytes + extension bytes */
    int vbr=0, tot3= sd? 1 : 0; for(int i=0;i<F;i++) if(i>begin&&i<end&&rp.len[i]!=rp.len[begin]) vbr=1;
    tot3+=2; for(int i=0;i<F;i++) if(i>=begin&&i<end){ tot3+=rp.len[i]; if(vbr&&i<end-1) tot3+=1; }
    int need=tot3+g_E+g_E/254+1;
    VASSERT((r==OPUS_BUFFER_TOO_SMALL)==(need>maxlen),"refused exactly when frames + padding header + extensions do not fit in maxlen");
    if(r>0) VASSERT(r==need,"the packet has exactly the size the format needs");
    if(g_dry>=1){
    VASSERT(g_cnt==total && g_frames_arg==n,"the generator gets every extension of the selected slots and the number of output frames");
    /* order and renumbering: walk the selected slots */
    { int k=0; for(int i=0;i<F;i++) if(i>=begin&&i<end) for(int j=0;j<NX;j++) if(j<g_n[i]){
        VASSERT(g_list[k].frame==i-begin,"each extension is renumbered to the output frame that holds its audio frame");
        VASSERT(g_list[k].id==g_id[i][j] && g_list[k].len==g_len[i][j],"extensions keep their id/length and their order");
        k++; } }
    }
    if(r>0){
      VASSERT(g_dry>=1 && g_real==1,"the coded size is queried and the extensions are written exactly once");
      VASSERT(g_dst>=out && g_dst+g_dstlen==out+r,"the extension bytes are the tail of the packet");
      unsigned char toc; const unsigned char *fr[48]; opus_int16 sz[48]; opus_int32 pko=-1; const unsigned char *pd=0; opus_int32 pl=-1;
      int c=opus_packet_parse_impl(out,r,sd,&toc,fr,sz,0,&pko,&pd,&pl);
      VASSERT(c==n && pko==r,"output parses back to the selected frames and is exactly the returned length");
      VASSERT(pl>=g_E && pd+pl==out+r,"the extension bytes lie inside the packet's padding, at its end");
      for(int i=0;i<F;i++) if(i<c && c==n){ VASSERT(sz[i]==rp.len[begin+i],"frame length preserved, in order"); if(sz[i]==1) VASSERT(fr[i][0]==rp.frames[begin+i][0],"frame bytes preserved"); }
      { int k=vt_range(0,OL); if(pl>g_E && pd+k<g_dst && k<pl) VASSERT(pd[k]==0x01,"filler in front of the extensions is 0x01 padding"); }
    }
  }
  VWITNESS(r>0);
}
