/* Shared by every harness.  Three build modes:
 *   (default)    CBMC proof run: VASSERT -> __CPROVER_assert, inputs from nondet_*()
 *   -DWITNESS    vacuity twin: VASSERT disabled, only WITNESS(cond) remains and must be reachable
 *   -DVT_REPLAY  native gcc/ASan build: inputs popped from the counterexample's value list
 * Convention: every symbolic input is drawn through vt_*() (never an uninitialised local), so that
 * the order of vt_* values in a CBMC trace is exactly the order the native replay consumes them. */
#ifndef VT_COMMON_H
#define VT_COMMON_H
#include <stdlib.h>
#include <string.h>

#ifdef VT_REPLAY
#include <stdio.h>
extern unsigned long long vt_pop(void);
#define __CPROVER_assume(c) do{ if(!(c)){ printf("REPLAY-ASSUME-FAILED %s:%d %s\n",__FILE__,__LINE__,#c); fflush(stdout); _Exit(3);} }while(0)
#define __CPROVER_assert(c,m) do{ if(!(c)){ printf("REPLAY-ASSERT-FAILED %s:%d %s\n",__FILE__,__LINE__,m); fflush(stdout); _Exit(1);} }while(0)
static int vt_int(void){ return (int)(unsigned)vt_pop(); }
static unsigned vt_uint(void){ return (unsigned)vt_pop(); }
static short vt_short(void){ return (short)(unsigned short)vt_pop(); }
static signed char vt_char(void){ return (signed char)(unsigned char)vt_pop(); }
static unsigned char vt_uchar(void){ return (unsigned char)vt_pop(); }
static float vt_float(void){ unsigned u=(unsigned)vt_pop(); float f; memcpy(&f,&u,4); return f; }
#else
int nondet_int(void); unsigned nondet_uint(void); short nondet_short(void);
signed char nondet_char(void); unsigned char nondet_uchar(void); float nondet_float(void);
static int vt_int(void){ int v=nondet_int(); return v; }
static unsigned vt_uint(void){ unsigned v=nondet_uint(); return v; }
static short vt_short(void){ short v=nondet_short(); return v; }
static signed char vt_char(void){ signed char v=nondet_char(); return v; }
static unsigned char vt_uchar(void){ unsigned char v=nondet_uchar(); return v; }
static float vt_float(void){ float v=nondet_float(); return v; }
#endif

#ifdef WITNESS
#define VASSERT(c,m) ((void)0)
#define VWITNESS(c) __CPROVER_assert(!(c),"WITNESS")
#else
#define VASSERT(c,m) __CPROVER_assert((c),m)
#define VWITNESS(c) ((void)0)
#endif

/* int in [lo,hi] */
static int vt_range(int lo,int hi){ int v=vt_int(); __CPROVER_assume(v>=lo&&v<=hi); return v; }
/* exact-size heap object of n bytes (n may be symbolic); non-NULL by assumption (allocation
   failure is only in scope for C11-H2, which does not use this helper) */
static void *vt_alloc(size_t n){
#ifdef VT_REPLAY
  /* place the object so that it ENDS at the end of an allocation: ASan then sees a 1-byte over-read even for n==0 */
  unsigned char *b=malloc(n+16); return b+16;
#else
  void *p=malloc(n); __CPROVER_assume(p!=0); return p;
#endif
}
/* fill p[0..n) with symbolic bytes, n<=max; max is a compile-time constant loop bound */
#define VT_FILL(p,n,max) do{ for(int vt_i=0; vt_i<(max); vt_i++) if(vt_i<(n)) ((unsigned char*)(p))[vt_i]=vt_uchar(); }while(0)

/* n symbolic bytes that END at the end of an object: an over-read past the data is an out-of-bounds access for CBMC without
   needing a symbolic-size object (which exhausts memory beyond a few dozen bytes). Reads before the start are not caught
   under CBMC; the native replay uses an exact allocation, so ASan sees both sides. */
#ifdef VT_REPLAY
#define VT_TAILBUF(name,n,max) unsigned char *name=(unsigned char*)vt_alloc(n); do{ unsigned char vt_tmp[(max)?(max):1]; VT_FILL(vt_tmp,(max),(max)); memcpy(name,vt_tmp+((max)-(n)),(n)); }while(0)
#else
#define VT_TAILBUF(name,n,max) unsigned char name##_store[(max)?(max):1]; VT_FILL(name##_store,(max),(max)); unsigned char *name=name##_store+((max)-(n))
#endif

#ifndef VT_NO_CELT_FATAL
#ifdef __GNUC__
__attribute__((noreturn))
#endif
void celt_fatal(const char *str, const char *file, int line){
#ifdef VT_REPLAY
  printf("REPLAY-ASSERT-FAILED %s:%d celt_fatal: %s\n",file,line,str); fflush(stdout); _Exit(1);
#else
  VASSERT(0,"celt_fatal: hardening assertion reachable"); __CPROVER_assume(0);
  for(;;){}
#endif
}
#endif
#endif
