/* C16-H1b, library part: the real src/extensions.c with the recursive self-call of opus_extension_iterator_next replaced (by
   goto-instrument --replace-calls, before the harness is linked) by the inductive-hypothesis stub below.  The leaves
   skip_extension / skip_extension_payload are the real ones.  Soundness: induction on curr_len, which the stub's precondition
   asserts to be strictly smaller than at entry of the step under proof; the stub's postcondition is exactly what the harness
   asserts of the real body. */
#define VT_NO_CELT_FATAL
#include "common.h"
#ifndef IT_EL
#define IT_EL 6
#endif
#ifndef IT_NF
#define IT_NF 3
#endif
#include "extensions.c"   /* the real /repo/src/extensions.c */
void celt_fatal(const char *str, const char *file, int line);

const unsigned char *g_buf; int g_len; int g_entry_curr_len; int g_ih_calls;

/* independent reading of the extension syntax: bytes consumed by the extension that starts at p with n>0 bytes left
   (no trailing-short adjustment), -1 if it does not fit */
static int sp_consumed(const unsigned char *p, int n){
  int b=p[0], id=b>>1, L=b&1;
  if(id==0) return L? 1 : n;            /* 0x01: one byte of padding; 0x00: padding to the end */
  if(id==1) return L? (n>=2?2:-1) : 1;  /* frame separator, optional increment byte */
  if(id==2) return 1;                   /* repeat indicator */
  if(id<32) return (n>=1+L)? 1+L : -1;  /* short extension */
  if(!L) return n;                      /* long extension, L=0: rest of the data */
  { int pos=1, bytes=0, lac;
    for(int k=0;k<IT_EL+1;k++){ if(pos>=n) return -1; lac=p[pos++]; bytes+=lac; if(lac!=255) break; }
    return (pos+bytes<=n)? pos+bytes : -1; }
}
/* region [p,p+n) is a sequence of whole extensions none of which is a repeat indicator (what the main loop has already
   skipped over between repeat_data and the indicator) */
static int sp_wellformed(const unsigned char *p, int n){
  for(int k=0;k<IT_EL+1;k++){
    if(n==0) return 1;
    if((p[0]>>1)==2) return 0;
    int c=sp_consumed(p,n); if(c<0) return 0;
    p+=c; n-=c;
  }
  return n==0;
}

/* representation invariant of an iterator over buf[0..len); pointers are compared through their offsets from buf */
int it_inv(const OpusExtensionIterator *it, const unsigned char *buf, int len){
  if(it->data!=buf || it->len!=len) return 0;
  if(it->nb_frames<0||it->nb_frames>IT_NF) return 0;
  if(it->frame_max<0||it->frame_max>it->nb_frames) return 0;
  if(it->curr_len>len) return 0;
  if(it->curr_len<0) return 1;                       /* failed: every later call reports the failure again */
  long cd=it->curr_data-buf, rd=it->repeat_data-buf, sd=it->src_data-buf;
  /* curr_data is where curr_len bytes are left - except once iteration has been stopped early (frame_max reached at a separator, or data
     left after the last frame's repeat), where curr_len is forced to 0 and nothing is read any more */
  if(!(cd == len-it->curr_len || (it->curr_len==0 && it->repeat_frame==0 && cd>=0 && cd<=len))) return 0;
  if(!(rd>=0 && rd<=cd)) return 0;
  if(it->curr_frame<0 || it->curr_frame>it->nb_frames) return 0;
  if(it->trailing_short_len<0 || it->trailing_short_len>cd) return 0;                    /* every counted payload byte lies before curr_data */
  if(it->repeat_l>1) return 0;
  if(it->repeat_frame<0 || it->repeat_frame>it->nb_frames) return 0;
  if(it->last_long!=0){ long ll=it->last_long-buf; if(!(ll>=0 && ll<=len)) return 0; }
  if(it->repeat_frame>0){
    if(!(it->curr_frame<it->nb_frames && it->repeat_frame>it->curr_frame)) return 0;    /* repeats go into the frames after the current one */
    if(it->repeat_len<0 || it->repeat_len>len || rd+it->repeat_len>=cd) return 0;   /* the indicator byte lies in between */
    if(!(it->src_len>=0 && it->src_len<=it->repeat_len && sd==rd+(it->repeat_len-it->src_len))) return 0;
    if(!sp_wellformed(buf+rd,it->repeat_len)) return 0;
    if(!sp_wellformed(buf+sd,it->src_len)) return 0;
  } else {
    /* what the main loop has stepped over since the last separator / repeat is a sequence of whole extensions */
    if(!sp_wellformed(buf+rd,(int)(cd-rd))) return 0;
  }
  return 1;
}
/* termination measure, compared lexicographically: bytes left, frames left to repeat into, source bytes left */
void it_rank(const OpusExtensionIterator *it, int r[3]){
  r[0]=it->curr_len<0?-1:it->curr_len;
  r[1]=it->repeat_frame>0? it->nb_frames-it->repeat_frame+1 : 0;
  r[2]=it->repeat_frame>0? it->src_len : 0;
}
int it_rank_less(const int a[3], const int b[3]){
  return a[0]<b[0] || (a[0]==b[0] && (a[1]<b[1] || (a[1]==b[1] && a[2]<b[2])));
}

/* inductive-hypothesis stub for the recursive self-call */
int vt_ih_next(OpusExtensionIterator *it, opus_extension_data *e){
  int r0[3], r1[3];
  g_ih_calls++;
  VASSERT(it_inv(it,g_buf,g_len),"recursive call: invariant holds");
  VASSERT(it->curr_len>=0 && it->curr_len<g_entry_curr_len,"recursive call: strictly fewer bytes left than at entry (induction measure)");
  VASSERT(it->repeat_frame>0,"recursive call only to start a repeat");
  it_rank(it,r0);
  int r=vt_int(); __CPROVER_assume(r==1||r==0||r==OPUS_INVALID_PACKET);
  OpusExtensionIterator n=*it;
  { int o1=vt_range(0,g_len),o2=vt_range(0,g_len),o3=vt_range(0,g_len),o4=vt_range(0,g_len),h=vt_range(0,1);
    n.curr_data=g_buf+o1; n.repeat_data=g_buf+o2; n.last_long=h?g_buf+o3:0; n.src_data=g_buf+o4; }
  n.curr_len=vt_int(); n.repeat_len=vt_int(); n.src_len=vt_int(); n.trailing_short_len=vt_int(); n.curr_frame=vt_int(); n.repeat_frame=vt_int();
  n.repeat_l=vt_uchar();
  __CPROVER_assume(it_inv(&n,g_buf,g_len));
  it_rank(&n,r1);
  if(r==1) __CPROVER_assume(it_rank_less(r1,r0));
  __CPROVER_assume((r==OPUS_INVALID_PACKET)==(n.curr_len<0));
  *it=n;
  if(r==1 && e){ int f=vt_int(),id=vt_int(),a=vt_int(),b=vt_int();
    __CPROVER_assume(f>=0&&f<it->nb_frames&&f<it->frame_max&&id>=3&&id<=127&&a>=0&&a<=g_len&&b>=0&&b<=g_len&&a+b<=g_len);
    e->frame=f; e->id=id; e->data=g_buf+a; e->len=b; }
  return r;
}
