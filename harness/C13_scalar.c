/* C13 scalar lemma: the three sample formats convert to bit-identical internal values, for every int16 v:
   INT16TORES(v) == INT24TORES(256 v) == FLOAT2RES(v/32768), and the same for the *TOSIG trio used by the analysis downmix. */
#include "common.h"
#include "arch.h"
#include "float_cast.h"
static unsigned bits(float f){ unsigned u; memcpy(&u,&f,4); return u; }
void harness(void){
  short v=vt_short();
  float a=INT16TORES(v), b=INT24TORES((int)v*256), c=FLOAT2RES((float)v/32768.f);
  VASSERT(bits(a)==bits(b) && bits(b)==bits(c),"INT16TORES(v)==INT24TORES(256v)==FLOAT2RES(v/32768) bit for bit");
  float s1=INT16TOSIG(v), s2=INT24TOSIG((int)v*256), s3=FLOAT2SIG((float)v/32768.f);
  VASSERT(bits(s1)==bits(s2)&&bits(s2)==bits(s3),"INT16TOSIG(v)==INT24TOSIG(256v)==FLOAT2SIG(v/32768) bit for bit");
  /* decoder side: a value that is exactly representable in 16 bits converts back to itself in all three formats */
  VASSERT(RES2INT16(a)==v,"RES2INT16 inverts INT16TORES");
  VASSERT(RES2INT24(a)==(int)v*256,"RES2INT24 inverts INT24TORES");
  VWITNESS(v==-32768);
}
