/* C12 decoder, OPUS_RESET_STATE == fresh object, decided per sub-state (the whole-object form of C12_dec.c MODE 1 never leaves symbolic
   execution: a memset through an interior pointer of a 18 KB object with symbolic contents).  Composition: opus_decoder_ctl(RESET) =
   top-level part (PART 3, sub-resets replaced by recording stubs that pin the pointers handed down) + CELT part (PART 2) + SILK part (PART 1);
   the fresh state itself is pinned by C12_dec.c MODE 0 (init on the whole object).  -DPART=1|2|3 -DCH=1|2 */
#include "common.h"
#if PART==1
#include "dec_API.c"
void harness(void){
  silk_decoder X, Y;                      /* arbitrary contents: any history / any previous memory */
  VASSERT(silk_InitDecoder(&X)==0,"init ok");
  VASSERT(silk_ResetDecoder(&Y)==0,"reset ok");
  int k=vt_range(0,(int)sizeof(silk_decoder)-1);
  /* nChannelsAPI / nChannelsInternal are not restored by reset; silk_Decode overwrites both before the next use of the state */
  if(!(k>=(int)offsetof(silk_decoder,nChannelsAPI) && k<(int)offsetof(silk_decoder,nChannelsInternal)+4))
    VASSERT(((unsigned char*)&X)[k]==((unsigned char*)&Y)[k],"silk_ResetDecoder from any state == silk_InitDecoder, byte for byte");
  VASSERT(Y.channel_state[0].prev_gain_Q16==65536 && Y.channel_state[1].first_frame_after_reset==1 && Y.channel_state[1].sCNG.rand_seed==3176576,"known reset values");
  VWITNESS(k==(int)sizeof(silk_decoder)-1);
}
#elif PART==2
#include "celt_decoder.c"
#define CELT_TAIL (((CH)*(DECODE_BUFFER_SIZE+120)-1)*4 + (CH)*CELT_LPC_ORDER*4 + 8*21*4)
typedef struct { CELTDecoder c; char tail[CELT_TAIL]; unsigned char guard[8]; } celt_obj;
void harness(void){
  static const opus_int32 RATES[5]={8000,12000,16000,24000,48000};
  opus_int32 Fs=RATES[vt_range(0,4)];
  celt_obj A, B;
  int size=celt_decoder_get_size(CH);
  VASSERT(size==(int)offsetof(celt_obj,guard),"harness object layout == library layout");
  VASSERT(celt_decoder_init(&A.c,Fs,CH)==OPUS_OK,"init ok");
  int cx=vt_range(0,10), pi=vt_range(0,1), sb=vt_range(0,17), eb=vt_range(1,21), sc=vt_range(1,CH);
  /* configuration = everything in front of the marker; identical in both objects (settings survive a reset) */
  A.c.complexity=cx; A.c.disable_inv=pi; A.c.signalling=0; A.c.start=sb; A.c.end=eb; A.c.stream_channels=sc;
  B.c.mode=A.c.mode; B.c.overlap=A.c.overlap; B.c.channels=A.c.channels; B.c.stream_channels=sc; B.c.downsample=A.c.downsample; B.c.start=sb; B.c.end=eb;
  B.c.signalling=0; B.c.disable_inv=pi; B.c.complexity=cx; B.c.arch=A.c.arch;
  VASSERT(offsetof(CELTDecoder,arch)+sizeof(int)<=offsetof(CELTDecoder,DECODER_RESET_START) && offsetof(CELTDecoder,DECODER_RESET_START)-offsetof(CELTDecoder,arch)<=8,
          "harness copies every field in front of the marker (a field added there must be added here)");
  unsigned char g0=vt_uchar(); int gi=vt_range(0,7); B.guard[gi]=g0;
  VASSERT(opus_custom_decoder_ctl(&B.c,OPUS_RESET_STATE)==OPUS_OK,"reset ok");
  int k=vt_range(0,size-1);
  VASSERT(((unsigned char*)&A)[k]==((unsigned char*)&B)[k],"CELT decoder: OPUS_RESET_STATE from any signal history == freshly initialised state with the same settings");
  VASSERT(B.guard[gi]==g0,"reset writes nothing behind celt_decoder_get_size() bytes");
  VASSERT(B.c.skip_plc==1 && B.c.rng==0 && B.c.loss_duration==0,"known reset values");
  VWITNESS(k==size-1 && cx==3);
}
#else
#include "opus_decoder.c"
static int g_celt_calls, g_silk_calls; static void *g_celt_ptr, *g_silk_ptr; static int g_celt_req;
int celt_decoder_ctl(CELTDecoder *st,int request,...){ g_celt_calls++; g_celt_ptr=st; g_celt_req=request; return OPUS_OK; }
opus_int silk_ResetDecoder(void *s){ g_silk_calls++; g_silk_ptr=s; return 0; }
opus_int silk_InitDecoder(void *s){ return 0; }
int celt_decoder_init(CELTDecoder *st, opus_int32 Fs, int ch){ return OPUS_OK; }
opus_int silk_Get_Decoder_Size(opus_int *n){ *n=8616; return 0; }
int celt_decoder_get_size(int ch){ return ch==1?9548:18316; }
typedef struct { OpusDecoder d; char rest[64]; } top_obj;
void harness(void){
  static const opus_int32 RATES[5]={8000,12000,16000,24000,48000};
  opus_int32 Fs=RATES[vt_range(0,4)];
  top_obj A, B;
  /* fresh top-level state: what init leaves (sub-inits stubbed; the clear is replayed on the struct itself) */
  memset(&A.d,0,sizeof(OpusDecoder));
  A.d.silk_dec_offset=align(sizeof(OpusDecoder)); A.d.celt_dec_offset=A.d.silk_dec_offset+align(8616);
  A.d.stream_channels=A.d.channels=CH; A.d.complexity=0; A.d.Fs=Fs; A.d.DecControl.API_sampleRate=Fs; A.d.DecControl.nChannelsAPI=CH; A.d.prev_mode=0; A.d.frame_size=Fs/400; A.d.arch=0;
  int g=vt_range(-32768,32767), cx=vt_range(0,10);
  A.d.decode_gain=g; A.d.complexity=cx;
  /* B: same configuration, any signal state */
  B.d.celt_dec_offset=A.d.celt_dec_offset; B.d.silk_dec_offset=A.d.silk_dec_offset; B.d.channels=CH; B.d.Fs=Fs; B.d.DecControl=A.d.DecControl; B.d.decode_gain=g; B.d.complexity=cx; B.d.arch=0;
  VASSERT(offsetof(OpusDecoder,arch)+sizeof(int)==offsetof(OpusDecoder,OPUS_DECODER_RESET_START),"harness sets every field in front of the marker");
  VASSERT(opus_decoder_ctl(&B.d,OPUS_RESET_STATE)==OPUS_OK,"reset ok");
  int k=vt_range(0,(int)sizeof(OpusDecoder)-1);
  VASSERT(((unsigned char*)&A.d)[k]==((unsigned char*)&B.d)[k],"top-level decoder state after OPUS_RESET_STATE == fresh state with the same settings");
  VASSERT(g_celt_calls==1 && g_celt_req==OPUS_RESET_STATE && g_celt_ptr==(char*)&B.d+B.d.celt_dec_offset,"CELT sub-state reset exactly once, at its offset");
  VASSERT(g_silk_calls==1 && g_silk_ptr==(char*)&B.d+B.d.silk_dec_offset,"SILK sub-state reset exactly once, at its offset");
  VWITNESS(k==(int)sizeof(OpusDecoder)-1 && g==77);
}
#endif
