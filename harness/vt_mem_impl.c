/* see vt_mem.h.  Plain word/byte loops: correct for any (symbolic) size; every loop gets an unwinding bound from the driver
   (Ob.memwords 4-byte words, default 64 = 256 bytes) and --unwinding-assertions reports a bound that is too small. */
#define VT_MEM_IMPL
#include "vt_mem.h"
#undef memcpy
#undef memmove
#undef memset
void *vt_memcpy(void *d, const void *s, size_t n){
  size_t off=0;
  while(n-off>=4){ *(unsigned*)((char*)d+off)=*(const unsigned*)((const char*)s+off); off+=4; }
  while(off<n){ ((char*)d)[off]=((const char*)s)[off]; off++; }
  return d;
}
void *vt_memset(void *d, int c, size_t n){
  size_t off=0; unsigned w=(unsigned char)c; w|=w<<8; w|=w<<16;
  while(n-off>=4){ *(unsigned*)((char*)d+off)=w; off+=4; }
  while(off<n){ ((char*)d)[off]=(char)c; off++; }
  return d;
}
void *vt_memmove(void *d, const void *s, size_t n){
  if(n==0) return d;
  /* direction from object identity and offsets (a relational comparison of pointers into different objects is expensive and unspecified) */
  if(__CPROVER_POINTER_OBJECT(d)!=__CPROVER_POINTER_OBJECT(s) || __CPROVER_POINTER_OFFSET(d)<=__CPROVER_POINTER_OFFSET(s)){
    size_t off=0;
    while(off<n){ ((char*)d)[off]=((const char*)s)[off]; off++; }
  } else {
    size_t rem=n;
    while(rem>0){ rem--; ((char*)d)[rem]=((const char*)s)[rem]; }
  }
  return d;
}
