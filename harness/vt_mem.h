/* Force-included (-include) into every translation unit of a CBMC build.
   cbmc 6.11's library models of memcpy/memmove/memset are wrong when the size is symbolic and the destination is not a
   byte array (repro: findings/cbmc_memcpy_symbolic_size_bug.c: nothing or garbage is copied). They are right for constant
   sizes. The wrappers below decompose a symbolic size into constant-size chunks handled by the library models. */
#ifndef VT_MEM_H
#define VT_MEM_H
#include <stddef.h>
#include <string.h>
void *vt_memcpy(void *d, const void *s, size_t n);
void *vt_memmove(void *d, const void *s, size_t n);
void *vt_memset(void *d, int c, size_t n);
#ifndef VT_MEM_IMPL
#define memcpy vt_memcpy
#define memmove vt_memmove
#define memset vt_memset
#endif
#endif
