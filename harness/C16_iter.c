/* C16-H1b: one call of the real opus_extension_iterator_next from ANY iterator state satisfying the representation invariant
   it_inv (C16_iter_lib.c) over ANY buffer of 0..IT_EL bytes that ends at the end of its object, nb_frames <= IT_NF.
   Proved: result in {1,0,OPUS_INVALID_PACKET}; a reported extension has id 3..127, a frame below nb_frames and frame_max and a
   payload inside the buffer; every read is inside the buffer (CBMC bounds checks, real leaves); no hardening assertion fires;
   the invariant is preserved (so the claims hold after any number of calls); failure is sticky; the lexicographic measure
   (bytes left, frames left to repeat into, source bytes left) strictly decreases whenever an extension is reported, so
   count / parse / find terminate.  The recursive self-call is the inductive-hypothesis stub vt_ih_next. */
#include "common.h"
#include "opus.h"
#include "opus_private.h"
#ifndef IT_EL
#define IT_EL 6
#endif
extern const unsigned char *g_buf; extern int g_len, g_entry_curr_len, g_ih_calls;
int it_inv(const OpusExtensionIterator *it, const unsigned char *buf, int len);
void it_rank(const OpusExtensionIterator *it, int r[3]);
int it_rank_less(const int a[3], const int b[3]);
void harness(void){
#ifdef IT_LEN
  int len=IT_LEN;                               /* case selector */
#else
  int len=vt_range(0,IT_EL);
#endif
  VT_TAILBUF(buf,len,IT_EL);
  OpusExtensionIterator it;
  { int o1=vt_range(0,len),o2=vt_range(0,len),o3=vt_range(0,len),o4=vt_range(0,len),hasll=vt_range(0,1);
    it.data=buf; it.curr_data=buf+o1; it.repeat_data=buf+o2; it.last_long= hasll? buf+o3 : 0; it.src_data=buf+o4; }
  it.len=len; it.curr_len=vt_int(); it.repeat_len=vt_int(); it.src_len=vt_int(); it.trailing_short_len=vt_int();
  it.nb_frames=vt_int(); it.frame_max=vt_int(); it.curr_frame=vt_int(); it.repeat_frame=vt_int(); it.repeat_l=vt_uchar();
  __CPROVER_assume(it_inv(&it,buf,len));
#ifdef IT_PHASE
  __CPROVER_assume((it.repeat_frame>0)==(IT_PHASE==1));   /* case selector: inside / outside a repeat */
#endif
  int withext=vt_range(0,1);
  opus_extension_data e; e.data=buf; e.len=0; e.frame=0; e.id=3;
  int r0[3], r1[3]; it_rank(&it,r0);
  int was_failed = it.curr_len<0;
  g_buf=buf; g_len=len; g_entry_curr_len=it.curr_len;
  int r=opus_extension_iterator_next(&it, withext? &e : (opus_extension_data*)0);
  it_rank(&it,r1);
  VASSERT(r==1||r==0||r==OPUS_INVALID_PACKET,"result is 1, 0 or OPUS_INVALID_PACKET");
  VASSERT(it_inv(&it,buf,len),"iterator invariant preserved");
  if(was_failed) VASSERT(r==OPUS_INVALID_PACKET,"a failed iterator keeps failing");
  VASSERT((r==OPUS_INVALID_PACKET)==(it.curr_len<0),"failure is recorded in the state, and only failure");
  if(r==1){
    VASSERT(it_rank_less(r1,r0),"termination measure strictly decreases when an extension is reported");
    if(withext){
      VASSERT(e.id>=3&&e.id<=127,"reported id in 3..127");
      VASSERT(e.frame>=0&&e.frame<it.nb_frames&&e.frame<it.frame_max,"reported frame below nb_frames and frame_max");
      VASSERT(__CPROVER_same_object(e.data,buf),"reported payload points into the buffer");
      VASSERT(e.len>=0 && __CPROVER_POINTER_OFFSET(e.data)>=__CPROVER_POINTER_OFFSET(buf) && __CPROVER_POINTER_OFFSET(e.data)+e.len<=__CPROVER_POINTER_OFFSET(buf)+len,"reported payload inside the buffer");
    }
  }
  #if defined(IT_PHASE) && IT_PHASE==0
  VWITNESS(r==1 && withext && e.len>=1 && e.id>=32);
#else
  VWITNESS(r==1 && withext && e.len>=1 && e.frame>=1 && g_ih_calls==0 && r0[1]>0);
#endif
}
