/* C01-H2 / C09: the packet front end of the decoder, opus_decode_native, with the frame decoder opus_decode_frame replaced by a synth
   stub that (a) asserts the region it is asked to fill lies inside the caller's exact-size buffer, (b) returns what the real
   opus_decode_frame may return (its duration rule is asserted on the real body in C01_frame.c), (c) logs every call.
   Decoder state: any value satisfying validate_opus_decoder.  Packet: any PL bytes, frame count <= MAXC; any len in -1..PL,
   NULL or not; any frame_size 1..MAXMS ms (default 120); decode_fec -1..2; framing = -DSD.  Fs = -DFSI case selector (index into the five rates). */
#include "common.h"
#define opus_decode_frame opus_decode_frame_REAL
#include "opus_decoder.c"
#undef opus_decode_frame
#include "rfc6716_framing.h"
static float *g_pcm; static int g_cap;
#define MAXLOG (MAXC+1)      /* full log of the first calls; scalars for the last call; running sums for the rest */
static int g_calls, g_fec_calls, g_plc_calls, g_pkt_calls; static int g_off[MAXLOG], g_room[MAXLOG], g_len[MAXLOG], g_fec[MAXLOG], g_null[MAXLOG]; static const unsigned char *g_dat[MAXLOG];
static int g_fail_allowed, g_acc, g_tiled=1, g_nonnull_before_last, g_last_off, g_last_room, g_last_len, g_last_fec, g_last_null; static const unsigned char *g_last_dat;
int stub_decode_frame(OpusDecoder *st, const unsigned char *data, opus_int32 len, opus_res *pcm, int frame_size, int decode_fec){
  int F2_5=st->Fs/400, F5=2*F2_5, F10=4*F2_5, F20=8*F2_5;
  int me=g_calls++;
  if(me<MAXLOG){ g_off[me]=(int)(pcm-g_pcm); g_room[me]=frame_size; g_len[me]=len; g_fec[me]=decode_fec; g_null[me]=(data==0); g_dat[me]=data; }
  if(me>0 && !g_last_null) g_nonnull_before_last=1;
  g_last_off=(int)(pcm-g_pcm); g_last_room=frame_size; g_last_len=len; g_last_fec=decode_fec; g_last_null=(data==0); g_last_dat=data;
  if((int)(pcm-g_pcm)!=g_acc*st->channels) g_tiled=0;
  VASSERT(pcm>=g_pcm && pcm<=g_pcm+g_cap,"frame decoder is handed a pointer into the caller's buffer");
  VASSERT(frame_size>=0 && pcm+frame_size*st->channels<=g_pcm+g_cap,"the room announced to the frame decoder lies inside the caller's buffer");
  if(frame_size<F2_5) return OPUS_BUFFER_TOO_SMALL;
  int audiosize;
  if(data!=0 && len>1){ g_pkt_calls++; if(decode_fec) g_fec_calls++; audiosize=st->frame_size; if(audiosize>frame_size) return OPUS_BAD_ARG; }
  else {
    g_plc_calls++;
    int req=frame_size; if(req>st->Fs/25*3) req=st->Fs/25*3;
    if(len<=1 && req>st->frame_size) req=st->frame_size;
    /* duration rule of the real function for concealment (C01_frame.c): whole request if no packet was ever decoded or > 20 ms or a legal
       PLC size; else rounded down to 10 ms, or (CELT/hybrid) to 5 ms */
    if(req>F20 || req==F20) audiosize=req;
    else if(req>F10) audiosize = vt_range(0,1)? req : F10;      /* prev_mode==0 returns req itself */
    else if(req>F5 && req<F10) audiosize = vt_range(0,2)==0? F5 : req;
    else audiosize=req;
  }
  if(g_fail_allowed){ int e=vt_range(0,3); if(e==1) return OPUS_INTERNAL_ERROR; if(e==2) return OPUS_BAD_ARG; }
  /* the decoder writes audiosize*channels samples: touch the first and the last one (bounds-checked against the exact-size object) */
  VASSERT(audiosize<=frame_size,"stub duration never exceeds the announced room (so the region written lies inside the caller's buffer, asserted above)");
  g_acc+=audiosize;
  return audiosize;
}
void harness(void){
  static const int FS[5]={8000,12000,16000,24000,48000};
  OpusDecoder st;
  st.Fs=FS[FSI]; st.channels=vt_range(1,2);
  st.DecControl.API_sampleRate=st.Fs; st.DecControl.nChannelsAPI=st.channels; st.DecControl.internalSampleRate=0; st.DecControl.nChannelsInternal=0; st.DecControl.payloadSize_ms=0; st.arch=0;
  st.stream_channels=vt_range(1,2);
  { int m=vt_range(0,3); st.mode = m==0?0: m==1?MODE_SILK_ONLY: m==2?MODE_HYBRID:MODE_CELT_ONLY; }
  { int m=vt_range(0,3); st.prev_mode = m==0?0: m==1?MODE_SILK_ONLY: m==2?MODE_HYBRID:MODE_CELT_ONLY; }
  { int k=vt_range(1,48); st.frame_size=k*(st.Fs/400); }
  st.last_packet_duration=vt_int(); st.bandwidth=vt_int(); st.prev_redundancy=vt_range(0,1); st.decode_gain=vt_int(); st.complexity=vt_range(0,10);
  int F2_5=st.Fs/400;
  unsigned char pkt[PL]; for(int i=0;i<PL;i++) pkt[i]=vt_uchar();
  __CPROVER_assume((pkt[0]&3)!=3 || (pkt[1]&0x3F)<=MAXC);             /* stated bound on the frame count */
  int len=vt_range(-1,PL);
#ifndef MAXMS
#define MAXMS 120
#endif
  int frame_size=vt_range(1,st.Fs/1000*MAXMS);
  int fec=vt_range(-1,2);
  int usenull=vt_range(0,1);
  g_fail_allowed=vt_range(0,1);
#ifdef C09ONLY
  __CPROVER_assume(usenull || len==0 || fec==1);        /* C09: concealment and FEC requests only */
  __CPROVER_assume(fec==0 || fec==1);
#endif
  g_cap=frame_size*st.channels; g_pcm=(float*)vt_alloc(sizeof(float)*g_cap);
  opus_int32 po=-7; int lpd0=st.last_packet_duration;
  const unsigned char *data = usenull? (const unsigned char*)0 : pkt;
  int r=opus_decode_native(&st,data,len,g_pcm,frame_size,fec,SD,&po,0,(const OpusDRED*)0,0);
  VASSERT(r==OPUS_BAD_ARG||r==OPUS_BUFFER_TOO_SMALL||r==OPUS_INVALID_PACKET||r==OPUS_INTERNAL_ERROR||(r>0&&r<=frame_size),"documented error or 0 < n <= frame_size");
  if(r>0) VASSERT(st.last_packet_duration==r,"last_packet_duration == samples returned");
  if(r<0 && !(fec==1 && !usenull && len>0)) VASSERT(st.last_packet_duration==lpd0,"a rejected call leaves last_packet_duration alone");
  if(!g_fail_allowed) VASSERT(r!=OPUS_INTERNAL_ERROR,"never an internal error unless the frame decoder reported one");
  int plc = (usenull || len==0);
  if(fec<0||fec>1) VASSERT(r==OPUS_BAD_ARG && g_calls==0,"decode_fec outside 0..1 rejected before anything is decoded");
  else if(plc || fec){
    /* C09: concealment and FEC requests */
    if(frame_size%F2_5!=0) VASSERT(r==OPUS_BAD_ARG && g_calls==0,"PLC/FEC duration that is not a multiple of 2.5 ms is rejected, nothing decoded");
  }
  if(fec>=0&&fec<=1 && plc && frame_size%F2_5==0){
    if(!g_fail_allowed) VASSERT(r==frame_size,"concealment returns exactly the requested duration");
    VASSERT(g_pkt_calls==0,"concealment never decodes packet data");
    /* consecutive pieces tile the buffer */
    VASSERT(g_tiled,"concealed pieces are placed back to back from the start of the buffer");
  }
  if(fec>=0&&fec<=1 && !plc && len>0 && !(fec && frame_size%F2_5!=0)){
    rfc_pkt m=rfc_parse(pkt,len,SD);
    int pfs=(int)((long long)rfc_frame_48k(pkt[0])*st.Fs/48000);
    int celt=(pkt[0]&0x80)!=0;
    if(!m.valid) VASSERT(r==OPUS_INVALID_PACKET && g_calls==0,"invalid framing rejected before anything is decoded");
    else if(fec==0){
      if(m.count*pfs>frame_size) VASSERT(r==OPUS_BUFFER_TOO_SMALL && g_calls==0,"packet longer than the caller's buffer: OPUS_BUFFER_TOO_SMALL, nothing decoded");
      else {
        if(!g_fail_allowed) VASSERT(r==m.count*pfs,"a valid packet with room decodes to count x samples_per_frame");
        for(int i=0;i<MAXC+1;i++) if(i<g_calls && i<m.count){
          VASSERT(g_off[i]==i*pfs*st.channels,"frame i is decoded at sample offset i x frame duration");
          VASSERT(g_room[i]==frame_size-i*pfs,"room announced for frame i == what is left of the caller's buffer");
          VASSERT(!g_null[i] && g_dat[i]==pkt+m.frame_off[i] && g_len[i]==m.size[i] && g_fec[i]==0,"frame i gets exactly its own bytes");
        }
        if(!g_fail_allowed) VASSERT(g_calls==m.count,"one frame-decoder call per frame");
        if(r>0) VASSERT(po==m.consumed,"packet_offset == bytes consumed");
      }
    } else if(frame_size%F2_5==0){
      /* FEC: PLC for the gap, then exactly one FEC decode of the first frame at the end of the buffer */
      if(frame_size<pfs || celt || st.mode==MODE_CELT_ONLY){ VASSERT(g_pkt_calls==0,"no FEC possible: pure concealment"); if(!g_fail_allowed) VASSERT(r==frame_size,"... of the requested duration"); }
      else if(!g_fail_allowed){
        VASSERT(r==frame_size,"FEC returns exactly the requested duration");
        VASSERT(g_fec_calls<=1 && g_calls>=1,"at most one FEC decode");
        VASSERT(g_last_off==(frame_size-pfs)*st.channels && g_last_room==pfs,"the FEC frame is placed at frame_size - packet duration");
        VASSERT(g_last_fec==1 && g_last_dat==pkt+m.frame_off[0] && g_last_len==m.size[0],"the FEC decode gets the first frame of the packet");
        VASSERT(!g_nonnull_before_last && g_tiled,"everything before the FEC frame is concealment, placed back to back");
      }
    }
  }
  VWITNESS(r>0 && g_calls==2 && fec==1 && g_fec_calls==1);
}
