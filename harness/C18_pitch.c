/* C18-H6: real silk_decode_pitch: any lagIndex in int16, any in-codebook contour, fs, nb_subfr: lags clamped to [2 ms,18 ms],
   codebook reads in bounds, and every lag equals clamp(min_lag + index + codebook offset). */
#include "common.h"
#include "main.h"
#include "pitch_est_defines.h"
/* flat 1-D copies of the lag codebooks generated from the current silk/pitch_est_tables.c (props/C18.py gen_flat_pitch) and the real
   silk_decode_pitch compiled against them: cbmc reads past row 0 of a 2-D table through &T[0][0] as an unconstrained value */
#include "flat_pitch_tables.h"
#include "decode_pitch.c"
void harness(void){
  int fs=vt_range(0,2); fs = fs==0?8:fs==1?12:16; int nb=vt_range(0,1)?4:2;
  int ncont = fs==8? (nb==4?11:3) : (nb==4?34:12);
  opus_int16 lag=vt_short(); opus_int8 ci=vt_range(0,ncont-1);
  int pl[4]={-1,-1,-1,-1};
  silk_decode_pitch(lag,ci,pl,fs,nb);
  for(int k=0;k<4;k++){ if(k<nb) VASSERT(pl[k]>=2*fs&&pl[k]<=18*fs,"lag inside the legal range for the sampling rate"); else VASSERT(pl[k]==-1,"only nb_subfr lags written"); }
  /* in-range lag indices are reproduced up to the contour offset */
  if(lag>=0 && lag<16*fs){ int base=2*fs+lag; VASSERT(pl[0]-base>=-30&&pl[0]-base<=30 || pl[0]==2*fs || pl[0]==18*fs,"lag = min_lag + index + contour offset, or clamped"); }
  { const opus_int8 *cb = fs==8 ? (nb==4? vt_flat_silk_CB_lags_stage2 : vt_flat_silk_CB_lags_stage2_10_ms) : (nb==4? vt_flat_silk_CB_lags_stage3 : vt_flat_silk_CB_lags_stage3_10_ms);
    for(int k=0;k<4;k++) if(k<nb){ int want=2*fs+lag+cb[k*ncont+ci]; want = want<2*fs?2*fs: want>18*fs?18*fs:want; VASSERT(pl[k]==want,"lag == clamp(min_lag + lagIndex + contour offset) as the encoder computes it"); } }
  VWITNESS(pl[0]==18*fs && lag<16*fs);
}
