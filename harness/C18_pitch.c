/* C18-H6: real silk_decode_pitch: any lagIndex in int16, any in-codebook contour, fs, nb_subfr: lags clamped to [2 ms,18 ms],
   codebook reads in bounds. The range assertions do not depend on the table contents (cbmc 6.11 mis-reads 2-D byte tables through
   flat pointers in some modes, see run.py); the witness execution is replayed natively to confirm the values. */
#include "common.h"
#include "main.h"
void harness(void){
  int fs=vt_range(0,2); fs = fs==0?8:fs==1?12:16; int nb=vt_range(0,1)?4:2;
  int ncont = fs==8? (nb==4?11:3) : (nb==4?34:12);
  opus_int16 lag=vt_short(); opus_int8 ci=vt_range(0,ncont-1);
  int pl[4]={-1,-1,-1,-1};
  silk_decode_pitch(lag,ci,pl,fs,nb);
  for(int k=0;k<4;k++){ if(k<nb) VASSERT(pl[k]>=2*fs&&pl[k]<=18*fs,"lag inside the legal range for the sampling rate"); else VASSERT(pl[k]==-1,"only nb_subfr lags written"); }
  /* in-range lag indices are reproduced up to the contour offset */
  if(lag>=0 && lag<16*fs){ int base=2*fs+lag; VASSERT(pl[0]-base>=-30&&pl[0]-base<=30 || pl[0]==2*fs || pl[0]==18*fs,"lag = min_lag + index + contour offset, or clamped"); }
  VWITNESS(pl[0]==18*fs && lag<16*fs);
}
