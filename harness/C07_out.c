/* C07-H2: opus_repacketizer_out_range_impl from ANY constructed valid state with <=F frames of <=ML bytes: any [begin,end),
   maxlen, framing, pad. The output is re-parsed by the real parser and compared with the selected frames byte for byte.
   -DF -DML -DOL -DPADV=0|1 ; -DLENS=a,b,c makes the frame lengths concrete case selectors (lengths around the 251/252 one-/two-byte
   length boundary and 1275 need copies of hundreds of bytes, affordable only with concrete sizes); the byte comparison is then made at one symbolic position per frame */
#include "common.h"
#include "opus.h"
#include "opus_private.h"
#include "C07_ext_stub.h"
/* size of the canonical packet the RFC framing needs for these frame lengths (independent formula) */
static int spec_size(const opus_int16 *len,int n,int sd){
  int tot=0, vbr=0; for(int i=0;i<F;i++) if(i<n){ tot+=len[i]; if(len[i]!=len[0]) vbr=1; }
  int lastsz = sd ? 1+(len[n-1]>=252) : 0;
  if(n==1) return 1+tot+lastsz;
  if(n==2) return vbr ? 1+1+(len[0]>=252)+tot+lastsz : 1+tot+lastsz;
  if(!vbr) return 2+tot+lastsz;
  { int h=2; for(int i=0;i<F;i++) if(i<n-1) h+=1+(len[i]>=252); return h+tot+lastsz; }
}
void harness(void){
  unsigned char src[F*ML+1], out[OL+1];
  for(int i=0;i<F*ML+1;i++) src[i]=vt_uchar();
  unsigned char guard=vt_uchar(); for(int i=0;i<=OL;i++) out[i]=guard;
  static OpusRepacketizer rp;
  rp.toc=vt_uchar(); rp.nb_frames=vt_range(1,F);
  rp.framesize=opus_packet_get_samples_per_frame(&rp.toc,8000);
  __CPROVER_assume(rp.nb_frames*rp.framesize<=960);                       /* Inv(rp): at most 120 ms */
#ifdef LENS
  static const int fixed_len[F]={LENS};
#endif
  int off=0;
  for(int i=0;i<F;i++){
#ifdef LENS
    int l=fixed_len[i];
#else
    int l=vt_range(0,ML);
#endif
    rp.len[i]=l; rp.frames[i]=src+off; off+=l; rp.paddings[i]=0; rp.padding_len[i]=0; rp.padding_nb_frames[i]=0; }
#ifdef LENS
  int begin=BEGIN, end=END;          /* case selectors too: they select which concrete lengths are copied */
#else
  int begin=vt_int(), end=vt_int();
#endif
  int maxlen=vt_range(0,OL), sd=vt_range(0,1), pad=PADV;
  int r=opus_repacketizer_out_range_impl(&rp,begin,end,out,maxlen,sd,pad,0,0);
  if(begin<0||begin>=end||end>rp.nb_frames){ VASSERT(r==OPUS_BAD_ARG,"bad range rejected"); { int k=vt_range(0,OL); VASSERT(out[k]==guard,"nothing written on a bad range"); } return; }
  int n=end-begin; int need=spec_size(rp.len+begin,n,sd);
  VASSERT(r==OPUS_BUFFER_TOO_SMALL || (r>0&&r<=maxlen),"result is BUFFER_TOO_SMALL or a length <= maxlen");
  VASSERT((r==OPUS_BUFFER_TOO_SMALL)==(need>maxlen),"refused exactly when the canonical packet does not fit");
  { int k=vt_range(0,OL); if(k>=maxlen) VASSERT(out[k]==guard,"never writes at or beyond data[maxlen]"); }
  if(r>0){
    VASSERT(pad ? r==maxlen : r==need,"unpadded output has the canonical size; padded output fills maxlen exactly");
    unsigned char toc; const unsigned char *fr[48]; opus_int16 sz[48]; opus_int32 pko=-1;
    int c=opus_packet_parse_impl(out,r,sd,&toc,fr,sz,0,&pko,0,0);
    VASSERT(c==n,"output parses back to the selected number of frames");
    VASSERT((toc&0xFC)==(rp.toc&0xFC),"configuration bits preserved");
    VASSERT(pko==r,"the packet is exactly the returned length");
    for(int i=0;i<F;i++) if(i<c && c==n){ VASSERT(sz[i]==rp.len[begin+i],"frame length preserved, in order");
#ifdef LENS
      { int j=vt_range(0,ML-1); if(j<sz[i]) VASSERT(fr[i][j]==rp.frames[begin+i][j],"frame bytes preserved (any position)"); } }
#else
      for(int j=0;j<ML;j++) if(j<sz[i]) VASSERT(fr[i][j]==rp.frames[begin+i][j],"frame bytes preserved"); }
#endif
  }
#ifdef LENS
  VWITNESS(r>0 && sd==1);
#else
  VWITNESS(r>0 && n==F && rp.len[0]!=rp.len[F-1]);
#endif
}
