/* native replay driver: feeds the counterexample's vt_* values, in order, to the harness */
#include <stdio.h>
#include <stdlib.h>
static unsigned long long *g_v; static int g_n, g_i; int vt_exhausted;
unsigned long long vt_pop(void){ if(g_i<g_n) return g_v[g_i++]; vt_exhausted++; return 0; }
void harness(void);
int main(int argc,char**argv){
  FILE *f=fopen(argv[1],"r"); if(!f){ perror("open"); return 2; }
  unsigned long long x; g_v=malloc(sizeof(*g_v)*(1<<20));
  while(g_n<(1<<20) && fscanf(f,"%llx",&x)==1) g_v[g_n++]=x;
  fclose(f);
  harness();
  printf("REPLAY-NO-FAILURE consumed=%d of %d exhausted=%d\n",g_i,g_n,vt_exhausted);
  return 0;
}
