/* C02-H3 / C05-H1 / C11-H3 / C20-H3: the packetisation glue of the encoder, opus_encode_native, from any encoder state that
   satisfies the representation invariant below and any legal call.  Stubbed (contracts are part of the claim):
     opus_encode_frame_native  synth stub: asserts it is handed >= 1 byte inside a live buffer, logs mode/bandwidth/channels/duration, writes a
                               packet of any size 1..budget with the TOC the real code makes (gen_toc), size 1 = DTX
     run_analysis / tonality_get_info / is_digital_silence / compute_stereo_width / compute_frame_energy: any value of the documented range
     celt_encoder_ctl          CELT_GET_MODE only
     opus_packet_pad, opus_repacketizer_init/_cat/_out_range_impl: contract stubs; their guarantees are what C07 proves on the real code
   Case selectors: -DFSI (rate index), -DDUR (duration index 0..8 = 2.5,5,10,20,40,60,80,100,120 ms).  -DMAXOUT bound on out_data_bytes. */
#include "common.h"
#define opus_encode_frame_native opus_encode_frame_native_REAL
#define compute_stereo_width compute_stereo_width_REAL
#define is_digital_silence is_digital_silence_REAL
#define compute_frame_energy compute_frame_energy_REAL
#include "opus_encoder.c"
#undef opus_encode_frame_native
#undef compute_stereo_width
#undef is_digital_silence
#undef compute_frame_energy
/* ---- analysis stubs ---- */
static CELTMode dummy_mode;
int celt_encoder_ctl(CELTEncoder *st, int request, ...){ va_list ap; va_start(ap,request); if(request==CELT_GET_MODE_REQUEST){ const CELTMode **v=va_arg(ap,const CELTMode**); *v=&dummy_mode; } va_end(ap); return OPUS_OK; }
static void any_info(AnalysisInfo *info){ info->valid=vt_range(0,1); info->music_prob=vt_float(); info->music_prob_min=vt_float(); info->music_prob_max=vt_float(); info->bandwidth=vt_range(0,20); info->activity_probability=vt_float();
  __CPROVER_assume(info->music_prob>=0&&info->music_prob<=1&&info->music_prob_min>=0&&info->music_prob_min<=1&&info->music_prob_max>=0&&info->music_prob_max<=1&&info->activity_probability>=0&&info->activity_probability<=1); }
void run_analysis(TonalityAnalysisState *a, const CELTMode *m, const void *p, int asz, int fs, int c1,int c2,int C, opus_int32 Fs,int lsb, downmix_func d, AnalysisInfo *info){ any_info(info); }
void tonality_analysis_reset(TonalityAnalysisState *a){}
void tonality_get_info(TonalityAnalysisState *t, AnalysisInfo *info, int len){ any_info(info); }
int stub_silence(const opus_res*p,int fs,int ch,int lsb){ return vt_range(0,1); }
opus_val16 stub_width(const opus_res *pcm, int frame_size, opus_int32 Fs, StereoWidthState *mem){ float w=vt_float(); __CPROVER_assume(w>=0.f&&w<=1.f); return w; }
opus_val32 stub_energy(const opus_res *pcm, int frame_size, int channels, int arch){ float w=vt_float(); __CPROVER_assume(w>=0.f&&w<=1e10f); return w; }
/* ---- frame encoder stub ---- */
static int g_frames, g_sumfs, g_minbudget=1<<30, g_sumbudget, g_dtx_frames;
static int g_mode, g_bw, g_sch, g_fsz;
opus_int32 stub_frame(OpusEncoder *st, const opus_res *pcm, int frame_size, unsigned char *data, opus_int32 max_data_bytes, int float_api, int first_frame, AnalysisInfo *ai, int is_silence, int redundancy, int celt_to_silk, int prefill, opus_int32 equiv_rate, int to_celt){
  VASSERT(max_data_bytes>=1,"frame encoder is always handed at least one byte");
  /* what harness/C05_frame.c assumes of its caller (assume/guarantee) */
  VASSERT(max_data_bytes>=3 && (long long)st->bitrate_bps*frame_size>=24LL*st->Fs,"outside the low-budget path every frame has at least 3 bytes of room and of rate");
  VASSERT((st->mode!=MODE_CELT_ONLY || frame_size<=st->Fs/50) && (st->mode!=MODE_HYBRID || frame_size==st->Fs/100 || frame_size==st->Fs/50)
       && (st->mode!=MODE_SILK_ONLY || frame_size==st->Fs/100 || frame_size==st->Fs/50 || frame_size==st->Fs/25 || frame_size==3*st->Fs/50),"frame duration legal for the coding mode");
  VASSERT(st->bitrate_bps<=300000*st->channels || (long long)st->bitrate_bps*frame_size<=10208LL*st->Fs,"bitrate bounded by the setting range or by the 1276-byte cap");
  g_frames++; g_sumfs+=frame_size; g_sumbudget+=max_data_bytes; if(max_data_bytes<g_minbudget) g_minbudget=max_data_bytes;
  g_mode=st->mode; g_bw=st->bandwidth; g_sch=st->stream_channels; g_fsz=frame_size;
  VASSERT(st->mode==MODE_SILK_ONLY||st->mode==MODE_HYBRID||st->mode==MODE_CELT_ONLY,"a coding mode is decided");
  VASSERT(st->bandwidth>=OPUS_BANDWIDTH_NARROWBAND&&st->bandwidth<=OPUS_BANDWIDTH_FULLBAND,"a bandwidth is decided");
  VASSERT(st->stream_channels>=1&&st->stream_channels<=st->channels,"coded channels within the input channels");
  int n=vt_range(1,1276); __CPROVER_assume(n<=max_data_bytes);
  if(n==1) g_dtx_frames++;
  data[0]=gen_toc(st->mode, st->Fs/frame_size, st->bandwidth, st->stream_channels);
  data[n-1]=(n==1)?data[0]:vt_uchar();                 /* touches the last byte it claims: bounds-checked against the buffer handed down */
  return n;
}
/* ---- repacketizer / pad contract stubs (guarantees = C07) ---- */
static int s_frames, s_bytes; static unsigned char s_toc;
int opus_packet_pad(unsigned char *data, opus_int32 len, opus_int32 new_len){
  if(len<1) return OPUS_BAD_ARG; if(len==new_len) return OPUS_OK; if(len>new_len) return OPUS_BAD_ARG;
  unsigned char t=data[0]; int cnt = (t&3)==0 ? 1 : (t&3)==3 ? (data[1]&0x3F) : 2;
  data[new_len-1]=0;                               /* writes up to new_len-1: bounds-checked */
  data[0]=(t&0xFC)|3; data[1]=(unsigned char)(cnt|0x40);   /* becomes a code-3 packet with the same configuration and the same frames (C07-H3) */
  return OPUS_OK; }
OpusRepacketizer *opus_repacketizer_init(OpusRepacketizer *rp){ rp->nb_frames=0; s_frames=0; s_bytes=0; return rp; }
int opus_repacketizer_cat(OpusRepacketizer *rp, const unsigned char *data, opus_int32 len){
  VASSERT(len>=1,"cat is given a packet"); unsigned char t=data[0]; unsigned char l=data[len-1]; (void)l;
  if(s_frames==0) s_toc=t; else VASSERT((t&0xFC)==(s_toc&0xFC),"sub-frames of one packet share their configuration");
  rp->nb_frames++; s_frames++; s_bytes+=len-1; return OPUS_OK; }
opus_int32 opus_repacketizer_out_range_impl(OpusRepacketizer *rp, int begin, int end, unsigned char *data, opus_int32 maxlen, int sd, int pad, const opus_extension_data *e, int ne){
  VASSERT(begin==0&&end==rp->nb_frames&&ne==0&&sd==0,"whole range, standard framing, no extra extensions");
  /* C07-H2: fails only if the canonical packet does not fit; worst case header: code 2 = 1+2, code 3 VBR = 2+2(n-1) */
  int worst = s_bytes + (s_frames==1?1: s_frames==2?3: 2+2*(s_frames-1));
  if(worst>maxlen && vt_range(0,1)) return OPUS_BUFFER_TOO_SMALL;
  int r=vt_range(1,1276*6); __CPROVER_assume(r<=maxlen && r>=s_bytes+1); if(pad) __CPROVER_assume(r==maxlen);
  data[0]=(s_toc&0xFC)|(s_frames==1?0:3); data[r-1]=0; if(s_frames>1 && r>1) data[1]=s_frames; return r; }
opus_int silk_InitEncoder(void *e,int arch,silk_EncControlStruct *s){ return 0; }

static const int FSV[5]={8000,12000,16000,24000,48000};
static const int NUM[9]={1,2,4,8,16,24,32,40,48};
void harness(void){
  struct { OpusEncoder e; char tail[64]; } S; OpusEncoder *st=&S.e;       /* arbitrary contents, then the invariant */
  st->silk_enc_offset=sizeof(OpusEncoder); st->celt_enc_offset=sizeof(OpusEncoder)+32;
  st->Fs=FSV[FSI];
  /* ---- representation invariant of OpusEncoder (each conjunct: the only code that writes the field) ---- */
  __CPROVER_assume(st->channels==1||st->channels==2);                                                               /* init */
  __CPROVER_assume(st->application==OPUS_APPLICATION_VOIP||st->application==OPUS_APPLICATION_AUDIO||st->application==OPUS_APPLICATION_RESTRICTED_LOWDELAY);   /* init, ctl */
  __CPROVER_assume(st->force_channels==OPUS_AUTO||(st->force_channels>=1&&st->force_channels<=st->channels));       /* ctl */
  __CPROVER_assume(st->user_bandwidth==OPUS_AUTO||(st->user_bandwidth>=OPUS_BANDWIDTH_NARROWBAND&&st->user_bandwidth<=OPUS_BANDWIDTH_FULLBAND));
  __CPROVER_assume(st->max_bandwidth>=OPUS_BANDWIDTH_NARROWBAND&&st->max_bandwidth<=OPUS_BANDWIDTH_FULLBAND);
  __CPROVER_assume(st->user_forced_mode==OPUS_AUTO||(st->user_forced_mode>=MODE_SILK_ONLY&&st->user_forced_mode<=MODE_CELT_ONLY));
  __CPROVER_assume(st->use_vbr==0||st->use_vbr==1); __CPROVER_assume(st->vbr_constraint==0||st->vbr_constraint==1);
  __CPROVER_assume(st->user_bitrate_bps==OPUS_AUTO||st->user_bitrate_bps==OPUS_BITRATE_MAX||(st->user_bitrate_bps>=500&&st->user_bitrate_bps<=300000*st->channels));
  __CPROVER_assume(st->lsb_depth>=8&&st->lsb_depth<=24);
  __CPROVER_assume(st->use_dtx==0||st->use_dtx==1); __CPROVER_assume(st->fec_config>=0&&st->fec_config<=2);
  st->silk_mode.useInBandFEC = st->fec_config!=0;
  __CPROVER_assume(st->silk_mode.complexity>=0&&st->silk_mode.complexity<=10);
  __CPROVER_assume(st->silk_mode.packetLossPercentage>=0&&st->silk_mode.packetLossPercentage<=100);
  __CPROVER_assume(st->silk_mode.LBRR_coded==0||st->silk_mode.LBRR_coded==1);
  __CPROVER_assume(st->silk_mode.toMono==0||(st->silk_mode.toMono==1&&st->channels==2));                           /* silk_Encode sets it only for stereo input */
  __CPROVER_assume(st->voice_ratio>=-1&&st->voice_ratio<=100);
  __CPROVER_assume(st->signal_type==OPUS_AUTO||st->signal_type==OPUS_SIGNAL_VOICE||st->signal_type==OPUS_SIGNAL_MUSIC);
  __CPROVER_assume(st->lfe==0||st->lfe==1);
  __CPROVER_assume(st->stream_channels>=1&&st->stream_channels<=st->channels);
  __CPROVER_assume(st->mode>=MODE_SILK_ONLY&&st->mode<=MODE_CELT_ONLY);
  __CPROVER_assume(st->prev_mode==0||(st->prev_mode>=MODE_SILK_ONLY&&st->prev_mode<=MODE_CELT_ONLY));
  __CPROVER_assume(st->first==0||st->first==1);
  __CPROVER_assume(!st->first || st->prev_mode==0);
  /* RESTRICTED_LOWDELAY can only be selected while `first` (ctl) and then always codes CELT: prev_mode in {0, CELT} */
  __CPROVER_assume(st->application!=OPUS_APPLICATION_RESTRICTED_LOWDELAY || st->prev_mode==0 || st->prev_mode==MODE_CELT_ONLY);
  __CPROVER_assume(st->prev_channels>=0&&st->prev_channels<=st->channels);                                        /* = stream_channels of the previous frame (or 0) */
  __CPROVER_assume(st->bandwidth>=OPUS_BANDWIDTH_NARROWBAND&&st->bandwidth<=OPUS_BANDWIDTH_FULLBAND);
  __CPROVER_assume(st->auto_bandwidth==0||(st->auto_bandwidth>=OPUS_BANDWIDTH_NARROWBAND&&st->auto_bandwidth<=OPUS_BANDWIDTH_FULLBAND));
  __CPROVER_assume(st->analysis.initialized==0||st->analysis.initialized==1);
  __CPROVER_assume(st->variable_duration>=OPUS_FRAMESIZE_ARG&&st->variable_duration<=OPUS_FRAMESIZE_120_MS);
  __CPROVER_assume(st->peak_signal_energy>=0.f && st->peak_signal_energy<=1e10f);
  __CPROVER_assume(st->nb_no_activity_ms_Q1>=0 && st->nb_no_activity_ms_Q1<=2000);
  st->arch=0;
  int frame_size = NUM[DUR]*(st->Fs/400);
  int out_bytes=vt_range(0,MAXOUT);
  unsigned char *out=(unsigned char*)vt_alloc(out_bytes);           /* exact-size object: a store at or behind out[out_bytes] is a bounds failure */
  float pcm[4];
  OpusEncoder before=*st;
  int r = opus_encode_native(st, pcm, frame_size, out, out_bytes, 24, pcm, frame_size, 0, -2, st->channels, downmix_float, 1);
  int Fs=st->Fs, ch=st->channels;
  /* ---- C05 / C02: result range ---- */
  VASSERT(r!=OPUS_INTERNAL_ERROR,"never an internal error (the stubs never fail)");
  VASSERT(r==OPUS_BAD_ARG||r==OPUS_BUFFER_TOO_SMALL||(r>=1&&r<=out_bytes),"documented error or 1 <= length <= max_data_bytes");
  if(out_bytes>=1 && !(out_bytes==1 && DUR==7)) VASSERT(r>0 || r==OPUS_BUFFER_TOO_SMALL,"a legal call with room is not a bad argument");
  if(out_bytes==1 && DUR==7) VASSERT(r==OPUS_BUFFER_TOO_SMALL,"100 ms cannot be announced in one byte");
  if(out_bytes>=2) VASSERT(r>0,"two bytes always suffice for a minimal valid packet");
  /* ---- C11: an encode call never changes a user setting ---- */
  VASSERT(st->user_bitrate_bps==before.user_bitrate_bps && st->use_vbr==before.use_vbr && st->vbr_constraint==before.vbr_constraint && st->user_bandwidth==before.user_bandwidth
       && st->max_bandwidth==before.max_bandwidth && st->user_forced_mode==before.user_forced_mode && st->signal_type==before.signal_type && st->application==before.application
       && st->lsb_depth==before.lsb_depth && st->use_dtx==before.use_dtx && st->fec_config==before.fec_config && st->variable_duration==before.variable_duration && st->lfe==before.lfe,"encoding leaves the user settings as they were");
  VASSERT(st->force_channels==before.force_channels,"encoding leaves OPUS_SET_FORCE_CHANNELS as the user set it");
  if(r>0){
    /* ---- C02: what the packet announces ---- */
    if(g_frames<=1) VASSERT(opus_packet_get_nb_samples(out,r,Fs)==frame_size,"TOC (+ frame count byte) announce exactly the submitted duration");
    VASSERT(opus_packet_get_nb_channels(out)<=ch,"announced channels within the input channels");
    if(g_frames>0){
      VASSERT(g_sumfs==frame_size,"sub-frame durations add up to the submitted frame");
      /* ---- C11-H3: settings honoured when the frame encoder is entered ---- */
      if(before.application==OPUS_APPLICATION_RESTRICTED_LOWDELAY) VASSERT(g_mode==MODE_CELT_ONLY,"RESTRICTED_LOWDELAY codes CELT only");
      if(g_fsz<Fs/100) VASSERT(g_mode==MODE_CELT_ONLY,"frames shorter than 10 ms are CELT only");
      if(before.force_channels!=OPUS_AUTO) VASSERT(g_sch==before.force_channels || before.silk_mode.toMono || st->silk_mode.toMono,"OPUS_SET_FORCE_CHANNELS fixes the coded channel count (except during the stereo->mono transition frames SILK needs for a smooth down-mix)");
      if(Fs<=8000)  VASSERT(g_bw==OPUS_BANDWIDTH_NARROWBAND,"8 kHz input: narrowband (Nyquist)");
      if(Fs<=12000) VASSERT(g_bw<=OPUS_BANDWIDTH_MEDIUMBAND || (g_mode==MODE_CELT_ONLY && g_bw==OPUS_BANDWIDTH_WIDEBAND),"12 kHz input: at most mediumband (Nyquist; CELT has no mediumband and codes wideband)");
      if(Fs<=16000) VASSERT(g_bw<=OPUS_BANDWIDTH_WIDEBAND,"16 kHz input: at most wideband (Nyquist)");
      if(Fs<=24000) VASSERT(g_bw<=OPUS_BANDWIDTH_SUPERWIDEBAND,"24 kHz input: at most super-wideband (Nyquist)");
      if(before.user_bandwidth==OPUS_AUTO && g_mode!=MODE_CELT_ONLY) VASSERT(g_bw<=before.max_bandwidth,"OPUS_SET_MAX_BANDWIDTH bounds the coded bandwidth");
      if(before.user_bandwidth!=OPUS_AUTO && !before.lfe) VASSERT(g_bw<=before.user_bandwidth || (g_mode==MODE_CELT_ONLY && before.user_bandwidth==OPUS_BANDWIDTH_MEDIUMBAND && g_bw==OPUS_BANDWIDTH_WIDEBAND),"the coded bandwidth never exceeds OPUS_SET_BANDWIDTH (CELT codes wideband for mediumband)");
      VASSERT(g_mode!=MODE_HYBRID || g_bw>=OPUS_BANDWIDTH_SUPERWIDEBAND,"hybrid only above wideband");
      VASSERT(g_mode!=MODE_SILK_ONLY || g_bw<=OPUS_BANDWIDTH_WIDEBAND,"SILK only up to wideband");
      VASSERT(g_mode!=MODE_CELT_ONLY || g_bw!=OPUS_BANDWIDTH_MEDIUMBAND,"CELT has no mediumband");
    }
    /* ---- C05: CBR size ---- */
    if(!before.use_vbr){
      long long br = before.user_bitrate_bps==OPUS_AUTO ? 60LL*Fs/frame_size + (long long)Fs*ch : before.user_bitrate_bps==OPUS_BITRATE_MAX ? (long long)(out_bytes<1276?out_bytes:1276)*8*Fs/frame_size : before.user_bitrate_bps;
      long long want = (br*frame_size + 4LL*Fs) / (8LL*Fs);           /* round(bitrate x duration / 8) */
      long long cap = out_bytes<1276?out_bytes:1276; if(want>cap) want=cap; if(want<1) want=1;
      if(g_frames==1 && g_dtx_frames==0) VASSERT(g_minbudget==want,"CBR: the frame encoder's budget is round(bitrate x duration / 8) clipped to [1, min(max_data_bytes,1276)]");
      if(g_frames==0 && want>=2) VASSERT(r==want,"CBR: a low-budget packet is padded to exactly the CBR size");
      if(g_frames>1 && g_dtx_frames<g_frames && before.user_bitrate_bps!=OPUS_BITRATE_MAX){ long long w2=(br*frame_size + 4LL*Fs)/(8LL*Fs); if(w2>cap) w2=cap; VASSERT(r==w2,"CBR: a repacketised packet is padded to exactly the CBR size"); }
    }
    if(g_frames>1) VASSERT(g_sumbudget<=out_bytes+g_frames,"per-frame budgets of a repacketised packet never add up to more than the output buffer allows");
    /* ---- C20-H3 ---- */
    if(!before.use_dtx && g_frames>0 && g_dtx_frames==0 && out_bytes>=3) VASSERT(r>=2,"without DTX no TOC-only packet unless the frame encoder produced one");
  }
  VWITNESS(r>2 && g_frames>=1);
}
