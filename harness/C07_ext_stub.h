/* Contract stubs for the extension calls of the repacketizer, valid for slots that carry no padding
   (len==0 => no extensions: opus_extension_iterator_next returns 0 at once when curr_len==0, by inspection of its first loop;
   the leaf parsers are C16). The harnesses only construct padding-free states, and the stub asserts it. */
opus_int32 opus_packet_extensions_count(const unsigned char *data, opus_int32 len, int nb_frames){ VASSERT(len==0,"extension stub only valid without padding"); return 0; }
opus_int32 opus_packet_extensions_parse(const unsigned char *data, opus_int32 len, opus_extension_data *e, opus_int32 *nb, int nb_frames){ VASSERT(len==0,"extension stub only valid without padding"); *nb=0; return 0; }
opus_int32 opus_packet_extensions_generate(unsigned char *data, opus_int32 len, const opus_extension_data *e, opus_int32 nb, int nb_frames, int pad){ VASSERT(nb==0,"no extensions to generate"); return 0; }
