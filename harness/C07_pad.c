/* C07-H3: opus_packet_pad / opus_packet_unpad on any packet of LEN bytes (case selector; the pad path keeps a VLA copy),
   new_len = LEN..LEN+XP. -DLEN -DXP [-DUNPAD_ONLY] */
#include "common.h"
#include "opus.h"
#include "opus_private.h"
#include "rfc6716_framing.h"
#include "C07_ext_stub.h"
static int canon_size(const int *len,int n){
  int tot=0, vbr=0; for(int i=0;i<CMAX+1;i++) if(i<n){ tot+=len[i]; if(len[i]!=len[0]) vbr=1; }
  if(n==1) return 1+tot;
  if(n==2) return vbr ? 1+1+(len[0]>=252)+tot : 1+tot;
  if(!vbr) return 2+tot;
  { int h=2; for(int i=0;i<CMAX+1;i++) if(i<n-1) h+=1+(len[i]>=252); return h+tot; }
}
static void same_frames(const unsigned char *a,int alen,const unsigned char *orig,const rfc_pkt *m){
  unsigned char toc; const unsigned char *fr[48]; opus_int16 sz[48]; opus_int32 pko=-1;
  int c=opus_packet_parse_impl(a,alen,0,&toc,fr,sz,0,&pko,0,0);
  VASSERT(c==m->count,"same number of frames");
  VASSERT((toc&0xFC)==(orig[0]&0xFC),"same configuration bits");
  VASSERT(pko==alen,"packet is exactly the reported length");
  for(int i=0;i<CMAX+1;i++) if(i<c && c==m->count){ VASSERT(sz[i]==m->size[i],"same frame sizes, in order");
    for(int j=0;j<LEN;j++) if(j<sz[i]) VASSERT(fr[i][j]==orig[m->frame_off[i]+j],"same frame bytes"); }
}
void harness(void){
  unsigned char buf[LEN+XP+1], orig[LEN+1];
  for(int i=0;i<LEN;i++){ buf[i]=vt_uchar(); orig[i]=buf[i]; }
  unsigned char guard=vt_uchar(); for(int i=LEN;i<=LEN+XP;i++) buf[i]=guard;
#ifdef CMAX
  __CPROVER_assume((orig[0]&3)!=3 || LEN<2 || (orig[1]&0x3F)<=CMAX);   /* stated bound on the frame count */
#endif
  rfc_pkt m=rfc_parse(orig,LEN,0);
#ifndef UNPAD_ONLY
  /* padding-free inputs only (the extension stub is valid for those); padded inputs are covered by the unpad-only variant */
  __CPROVER_assume(!((orig[0]&3)==3 && LEN>1 && (orig[1]&0x40)));
  int new_len=LEN+vt_range(0,XP);
  int r=opus_packet_pad(buf,LEN,new_len);
  VASSERT(r==OPUS_OK||r==OPUS_INVALID_PACKET,"documented result");
  if(new_len>LEN) VASSERT((r==OPUS_OK)==(m.valid!=0),"padding succeeds exactly for valid packets");
  { int k=vt_range(0,LEN+XP); if(k>=new_len) VASSERT(buf[k]==guard,"never writes beyond new_len"); }
  if(r!=OPUS_OK || !m.valid) return;
  same_frames(buf,new_len,orig,&m);
  int u=opus_packet_unpad(buf,new_len);
#else
  int new_len=LEN;
  int u=opus_packet_unpad(buf,LEN);
  VASSERT((u>0)==(m.valid!=0),"unpad succeeds exactly for valid packets");
  VASSERT(u>0||u==OPUS_INVALID_PACKET,"documented result");
  if(u<=0) return;
#endif
  VASSERT(u>0 && u<=new_len,"unpadded packet is never longer than its input");
  VASSERT(u==canon_size(m.size,m.count),"unpadding is canonical: the minimal framing of the same frames");
  same_frames(buf,u,orig,&m);
  unsigned char snap[LEN+XP+1]; for(int i=0;i<=LEN+XP;i++) snap[i]=buf[i];
  int u2=opus_packet_unpad(buf,u);
  VASSERT(u2==u,"unpad is idempotent (length)");
  { int k=vt_range(0,LEN+XP); VASSERT(buf[k]==snap[k],"unpad is idempotent (bytes)"); }
  VWITNESS(m.count>=2 && u<new_len);
}
