/* C11-H1 (decoder): one opus_decoder_ctl request per run on a havocked OpusDecoder. Same contract as the encoder harness. */
#include "common.h"
#include "opus_decoder.c"
static int g_celt_calls, g_celt_val;
int celt_decoder_ctl(CELTDecoder *st, int request, ...){ va_list ap; va_start(ap,request); g_celt_calls++;
  if(request==OPUS_GET_PHASE_INVERSION_DISABLED_REQUEST||request==OPUS_GET_PITCH_REQUEST){ opus_int32 *p=va_arg(ap,opus_int32*); *p=g_celt_val; }
  else if(request==OPUS_SET_PHASE_INVERSION_DISABLED_REQUEST||request==OPUS_SET_COMPLEXITY_REQUEST){ g_celt_val=va_arg(ap,opus_int32); }
  va_end(ap); return OPUS_OK; }
typedef struct { OpusDecoder d; char tail[64]; } obj_t;
void harness(void){
  obj_t S, B; OpusDecoder *st=&S.d;
  st->silk_dec_offset=sizeof(OpusDecoder); st->celt_dec_offset=sizeof(OpusDecoder)+32;
  __CPROVER_assume(st->channels==1||st->channels==2);
  B=S;
  int v=nondet_int(); int out=123456789;
#ifdef UNKNOWN_REQUEST
  { int rq=nondet_int(); __CPROVER_assume(rq<4000 || rq>11050);
    int r=opus_decoder_ctl(st,rq,v);
    VASSERT(r==OPUS_UNIMPLEMENTED,"unknown request is OPUS_UNIMPLEMENTED");
    unsigned k=nondet_uint(); __CPROVER_assume(k<sizeof S); VASSERT(((unsigned char*)&B)[k]==((unsigned char*)&S)[k],"unknown request changes nothing");
    VWITNESS(rq==12345); return; }
#else
  int r=opus_decoder_ctl(st,REQ_SET,v);
  if(r==OPUS_OK){
    VASSERT(LEGAL(v,(&B.d)),"accepted value is legal per opus_defines.h");
    int r2=opus_decoder_ctl(st,REQ_GET,&out);
    VASSERT(r2==OPUS_OK && out==v,"getter reports the value that was set");
  } else {
    VASSERT(r==OPUS_BAD_ARG,"rejection uses the documented error");
    VASSERT(!LEGAL(v,(&B.d)),"a legal value is never rejected");
    VASSERT(g_celt_calls==0,"nothing forwarded to the CELT layer on rejection");
    unsigned k=nondet_uint(); __CPROVER_assume(k<sizeof S); VASSERT(((unsigned char*)&B)[k]==((unsigned char*)&S)[k],"rejection leaves every byte of the state unchanged");
  }
  { int r3=opus_decoder_ctl(st,REQ_GET,(opus_int32*)0); VASSERT(r3==OPUS_BAD_ARG,"null getter pointer is OPUS_BAD_ARG"); }
  VWITNESS(r==OPUS_OK);
#endif
}
