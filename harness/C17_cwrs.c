/* C17-H2: PVQ index <-> pulse vector bijection for one (N,K) per run (-DNN -DKK), index / vector symbolic. */
#include "common.h"
#include "cwrs.c"
void harness(void){
  int y[NN]; int y2[NN];
  opus_uint32 V=CELT_PVQ_V(NN,KK);
  /* direction 1: every index below V decodes to a K-pulse vector that encodes back to the index */
  opus_uint32 i=vt_uint(); __CPROVER_assume(i<V);
  opus_val32 yy=cwrsi(NN,KK,i,y);
  int sum=0; float e=0; for(int j=0;j<NN;j++){ sum+=abs(y[j]); e+=(float)y[j]*(float)y[j]; }
  VASSERT(sum==KK,"decoded vector has exactly K pulses");
  VASSERT(yy==e,"returned energy == sum of squares");
  VASSERT(icwrs(NN,y)==i,"encode(decode(i)) == i");
  /* direction 2: every K-pulse vector encodes to an index below V that decodes to the vector */
  int s2=0; for(int j=0;j<NN;j++){ y2[j]=vt_range(-KK,KK); s2+=abs(y2[j]); }
  __CPROVER_assume(s2==KK);
  opus_uint32 i2=icwrs(NN,y2);
  VASSERT(i2<V,"index below V(N,K)");
  int y3[NN]; cwrsi(NN,KK,i2,y3);
  for(int j=0;j<NN;j++) VASSERT(y3[j]==y2[j],"decode(encode(y)) == y");
  VWITNESS(i==V-1 && y2[0]<0);
}
