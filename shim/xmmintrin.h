/* Plain-C model of the SSE intrinsics the float build uses for float->int conversion (celt/float_cast.h).
   Intel SDM semantics: CVTSS2SI rounds according to MXCSR.RC (default round-to-nearest-even) and returns the
   "integer indefinite" 0x80000000 when the result is not representable or the input is NaN. */
#ifndef VERIF_XMM_SHIM
#define VERIF_XMM_SHIM
#include <math.h>
typedef struct { float f[4]; } __m128;
static inline __m128 _mm_set_ss(float x){ __m128 r; r.f[0]=x; r.f[1]=0; r.f[2]=0; r.f[3]=0; return r; }
static inline __m128 _mm_load_ss(const float *p){ return _mm_set_ss(*p); }
static inline int _mm_cvt_ss2si(__m128 a){
  float x=a.f[0];
  if(!(x>=-2147483648.f && x<2147483648.f)) return (int)0x80000000u;
  return (int)lrintf(x);
}
static inline int _mm_cvtss_si32(__m128 a){ return _mm_cvt_ss2si(a); }
#endif
